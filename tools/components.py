"""Component-level checks (filled in by compreplay-based checks)."""
CHECKS = {}


def run(pid, tier, seed, replay, t0):
    return CHECKS[pid](pid, tier, seed, replay, t0)
