"""Component-level checks (C11, C12, C14, C18, C19).

TLC enumerates a component specification (spec/MC/MC_*.tla): it checks the spec-level invariants
(refinement between the property's abstract model and the code-shaped operators that Node.tla uses)
and prints one JSON vector per transition / per distinct state.  harness/compreplay replays every
vector on the real data structure and compares every observable.  A mismatch is a violation: for
these properties the model *is* the property."""
import json
import os
import re
import shutil
import time

import vlib
from vlib import log

# pid -> list of (module, cfg_quick, cfg_thorough)
SPECS = {
    "C18": [("MC_Inflights", "MC_Inflights.cfg", "MC_Inflights_thorough.cfg")],
    "C11": [("MC_Quorum", "MC_Quorum_commit.cfg", "MC_Quorum_commit.cfg"),
            ("MC_Quorum", "MC_Quorum_vote.cfg", "MC_Quorum_vote.cfg"),
            ("MC_Quorum", "MC_Quorum_group.cfg", "MC_Quorum_group_thorough.cfg"),
            ("MC_Quorum", "MC_Quorum_gjoint.cfg", "MC_Quorum_gjoint.cfg"),
            ("MC_Quorum", "MC_Quorum_large.cfg", "MC_Quorum_large_thorough.cfg")],
    "C19": [("MC_MemStorage", "MC_MemStorage.cfg", "MC_MemStorage_thorough.cfg")],
    "C14": [("MC_Log", "MC_Log.cfg", "MC_Log_thorough.cfg")],
    "C12": [("MC_ConfChange", "MC_ConfChange.cfg", "MC_ConfChange_thorough.cfg")],
}


def tlc_vectors(module, cfg, outdir, seed, workers=1, timeout=3000):
    """Runs TLC on spec/MC/<module>.tla with <cfg>; returns (vector file, stats dict)."""
    raw = os.path.join(outdir, cfg.replace(".cfg", ".out"))
    vec = os.path.join(outdir, cfg.replace(".cfg", ".ndjson"))
    md = os.path.join(outdir, "md_" + cfg.replace(".cfg", ""))
    cmd = ["tlc", "-workers", str(workers), "-seed", str(seed), "-metadir", md, "-cleanup", "-noGenerateSpecTE",
           "-config", os.path.join("MC", cfg), os.path.join("MC", module + ".tla")]
    with open(raw, "w") as f:
        import subprocess
        env = dict(os.environ, JAVA_TOOL_OPTIONS="-Xss512m")
        try:
            p = subprocess.run(cmd, cwd=vlib.SPEC, stdout=f, stderr=subprocess.STDOUT, timeout=timeout, env=env)
        except subprocess.TimeoutExpired:
            raise vlib.ToolError("TLC timeout on " + cfg)
    n = 0
    states = distinct = 0
    ok = False
    errors = []
    with open(raw, errors="replace") as f, open(vec, "w") as o:
        for line in f:
            if line.startswith('"{'):
                o.write(json.loads(line) + "\n")
                n += 1
            elif line.startswith("Model checking completed. No error has been found."):
                ok = True
            elif "states generated" in line and "distinct states found" in line:
                m = re.search(r"(\d+) states generated, (\d+) distinct states found", line)
                if m:
                    states, distinct = int(m.group(1)), int(m.group(2))
            elif line.startswith("Error:") or "is violated" in line:
                errors.append(line.strip())
    os.remove(raw)
    return vec, {"cfg": cfg, "vectors": n, "tlc_states_generated": states, "tlc_distinct_states": distinct,
                 "tlc_ok": ok, "tlc_errors": errors[:5]}


def compreplay(vec):
    p = vlib.run([vlib.COMPREPLAY, vec], timeout=3000)
    summary = None
    mism = []
    for line in p.stdout.splitlines():
        if line.startswith("SUMMARY "):
            summary = json.loads(line[8:])
        elif line.startswith("MISMATCH ") and len(mism) < 5:
            mism.append(json.loads(line[9:]))
    if summary is None:
        raise vlib.ToolError("compreplay produced no summary:\n" + p.stdout[-2000:])
    return summary, mism


def short(v, n=700):
    s = json.dumps(v)
    return json.loads(s) if len(s) <= n else {"truncated": s[:n]}


def run(pid, tier, seed, replay, t0):
    outdir = os.path.join(vlib.OUT, pid)
    shutil.rmtree(outdir, ignore_errors=True)
    os.makedirs(outdir, exist_ok=True)
    rc = 0
    n_viol = 0
    total_vec = 0
    states = 0
    transitions = 0
    per = []
    samples = []
    spec_errors = []
    if replay:
        # a replay file is a vector file (ndjson) saved by an earlier failing run
        summary, mism = compreplay(replay)
        total_vec = summary["vectors"]
        if summary["mismatches"] > 0:
            log("VIOLATION property=%s replay=%s" % (pid, replay))
            for m in mism[:3]:
                log("  mismatch: " + json.dumps(m)[:600])
            rc = 1
            n_viol = summary["mismatches"]
        states = transitions = max(1, total_vec)
        samples = [{"replayed": replay}]
    else:
        for (module, cq, ct) in SPECS[pid]:
            cfg = cq if tier == "quick" else ct
            if not os.path.exists(os.path.join(vlib.SPEC, "MC", cfg)):
                cfg = cq
            vec, st = tlc_vectors(module, cfg, outdir, seed)
            if not st["tlc_ok"]:
                # the specification itself failed an invariant: not a verdict about the code
                spec_errors.append(st)
                raise vlib.ToolError("TLC did not complete on %s: %s" % (cfg, st["tlc_errors"]))
            summary, mism = compreplay(vec)
            st["replayed"] = summary["vectors"]
            st["mismatches"] = summary["mismatches"]
            per.append(st)
            total_vec += summary["vectors"]
            states += st["tlc_distinct_states"]
            transitions += st["tlc_states_generated"]
            with open(vec) as f:
                for k, line in enumerate(f):
                    if k in (3, 1500) and len(samples) < 4:
                        samples.append(short(json.loads(line)))
            if summary["mismatches"] > 0:
                rp = os.path.join(outdir, "replay-" + cfg.replace(".cfg", ".ndjson"))
                with open(rp, "w") as o:
                    for m in summary.get("first", []):
                        o.write(json.dumps(m["vector"]) + "\n")
                log("VIOLATION property=%s replay=%s" % (pid, rp))
                for m in mism[:3]:
                    log("  mismatch: " + json.dumps(m)[:800])
                rc = 1
                n_viol += summary["mismatches"]
            else:
                os.remove(vec)
    coverage = {
        "states": max(1, states),
        "transitions": max(1, transitions),
        "traces_validated_against_impl": total_vec,
        "samples": samples if samples else [{"note": "none"}],
        "exhaustive": True if not replay else False,
        "evaluations": total_vec,
        "distinct_nontrivial": max(2, states),
        "rule": "TLC enumerates every operation sequence of the component specification within the constants of the .cfg "
                "(VIEW = model state); one vector per generated transition and one full query table per distinct state; "
                "every vector is replayed on the real data structure and all observables compared",
        "per_config": per,
    }
    assumptions = ["documented preconditions of the component API are enabling conditions of the specification's actions",
                   "exhaustive within the constants listed in spec/MC/*.cfg; beyond them nothing is claimed"]
    vlib.write_evidence(pid, tier, seed, "model_checking", coverage, assumptions, time.time() - t0, n_viol)
    log("check %s: %d vectors replayed on the real code, %d distinct spec states, violations=%d, %.1fs" %
        (pid, total_vec, states, n_viol, time.time() - t0))
    return rc


CHECKS = {k: run for k in SPECS}
