#!/bin/sh
# runs every check of MANIFEST.json sequentially at the given tier (default quick); prints one line per check
cd /verif
TIER=${1:-quick}
for p in C01 C02 C03 C04 C05 C06 C07 C08 C09 C10 C11 C12 C13 C14 C15 C16 C17 C18 C19 C20; do
  s=$(date +%s)
  ./check $p --tier $TIER > out/run_all_$p.log 2>&1
  rc=$?
  e=$(date +%s)
  echo "$p rc=$rc $((e-s))s $(grep -c VIOLATION out/run_all_$p.log) viol $(grep -c 'DRIFT' out/run_all_$p.log) drift-lines"
done
