"""Model-checking leg (S) and spec->impl replay (channel A) for the system-level properties.

For a property, TLC explores spec/RaftRs.tla (through a wrapper spec/MC/MC_*.tla) exhaustively inside the bounds of
a .cfg, evaluating every predicate of Props.tla on every transition (`bad`), and prints the schedule (choice history)
of every distinct state.  The maximal schedules (leaves of the BFS tree) are replayed on the real RawNode cluster by
harness/simrun; the recorded executions are judged by TLC through spec/Trace.tla like any other trace."""
import json
import os
import re
import subprocess
import time
from concurrent.futures import ThreadPoolExecutor

import vlib
from vlib import log

K0 = dict(election_tick=3, heartbeat_tick=1, max_size_per_msg=-1, max_inflight=2, check_quorum=False, pre_vote=False,
          skip_bcast_commit=False, batch_append=False, priority=0, max_uncommitted_size=-1,
          max_committed_size_per_ready=-1, max_apply_unpersisted_log_limit=0, disable_proposal_forwarding=False, lease_read=False)


def cluster(ids, voters, learners, **over):
    k = dict(K0)
    k.update(over)
    return {"ids": ids, "voters": voters, "learners": learners, "knobs": [dict(k) for _ in ids]}


# name -> (module, cluster cfg). The .cfg files are spec/MC/<name>.cfg (quick) and <name>_thorough.cfg
MODELS = {
    "MC_elect": ("MC_core", cluster([1, 2, 3], [1, 2, 3], [])),
    "MC_repl": ("MC_core", cluster([1, 2, 3], [1, 2, 3], [])),
    "MC_change": ("MC_core", cluster([1, 2, 3], [1, 2, 3], [])),
    "MC_ready": ("MC_core", cluster([1, 2], [1, 2], [])),
    "MC_single": ("MC_core", cluster([1, 2], [1], [2])),
    "MC_prevote": ("MC_core", cluster([1, 2, 3], [1, 2, 3], [], pre_vote=True, check_quorum=True)),
    "MC_transfer": ("MC_core", cluster([1, 2, 3], [1, 2, 3], [])),
    "MC_conf": ("MC_core", cluster([1, 2, 3], [1, 2], [])),
    "MC_read": ("MC_core", cluster([1, 2, 3], [1, 2, 3], [])),
    "MC_snap": ("MC_core", cluster([1, 2, 3], [1, 2, 3], [])),
    "MC_reqsnap": ("MC_core", cluster([1, 2], [1, 2], [])),
    "MC_async": ("MC_core", cluster([1, 2], [1], [2])),
}
# models whose quick configuration is small enough for the quick tier; the rest run in the thorough tier only
QUICK = {"MC_elect", "MC_repl", "MC_ready", "MC_single", "MC_prevote", "MC_transfer", "MC_conf", "MC_read", "MC_snap", "MC_reqsnap", "MC_async"}

CONFIGS = {
    "C01": ["MC_repl", "MC_change", "MC_single"],
    "C02": ["MC_elect", "MC_prevote", "MC_transfer", "MC_change"],
    "C03": ["MC_elect", "MC_change", "MC_prevote"],
    "C04": ["MC_repl", "MC_ready", "MC_change"],
    "C05": ["MC_repl", "MC_change", "MC_single"],
    "C06": ["MC_ready", "MC_single", "MC_elect", "MC_async"],
    "C07": ["MC_ready", "MC_single", "MC_repl", "MC_async"],
    "C08": ["MC_read"],
    "C09": ["MC_conf"],
    "C13": ["MC_repl", "MC_snap"],
    "C15": ["MC_snap", "MC_reqsnap"],
    "C16": ["MC_prevote"],
    "C17": ["MC_transfer"],
    "C20": ["MC_ready", "MC_single", "MC_elect", "MC_change"],
}

REPLAY_BUDGET = {"quick": 600000, "thorough": 6000000}   # schedule steps replayed on the real code per model (before merging)


def run_tlc(name, module, tier, outdir, seed, workers=12, timeout=None):
    cfg = name + ("_thorough.cfg" if tier == "thorough" else ".cfg")
    if not os.path.exists(os.path.join(vlib.SPEC, "MC", cfg)):
        cfg = name + ".cfg"
    raw = os.path.join(outdir, name + ".tlc.out")
    md = os.path.join(outdir, "md_" + name)
    cmd = ["tlc", "-workers", str(workers), "-seed", str(seed), "-metadir", md, "-cleanup", "-noGenerateSpecTE",
           "-config", os.path.join("MC", cfg), os.path.join("MC", module + ".tla")]
    env = dict(os.environ, JAVA_TOOL_OPTIONS="-Dtlc2.tool.impl.Tool.cdot=true -Xss256m")
    tmo = timeout or (240 if tier == "quick" else 3000)
    t0 = time.time()
    complete = True
    with open(raw, "w") as f:
        try:
            subprocess.run(cmd, cwd=vlib.SPEC, stdout=f, stderr=subprocess.STDOUT, timeout=tmo, env=env)
        except subprocess.TimeoutExpired:
            complete = False
    return raw, cfg, complete, time.time() - t0


def run_tlc_big(name, module, outdir, seed, workers=12, timeout=1200):
    """Thorough tier: the larger scope <name>_thorough.cfg is model-checked at the specification level only
    (every predicate on every transition, schedule printing off); replay on the real code uses <name>.cfg."""
    src = os.path.join(vlib.SPEC, "MC", name + "_thorough.cfg")
    if not os.path.exists(src):
        return None
    tmp = os.path.join(vlib.SPEC, "MC", "BIG_%s_%d.cfg" % (name, os.getpid()))
    open(tmp, "w").write(open(src).read().replace("PrintReplay = TRUE", "PrintReplay = FALSE"))
    raw = os.path.join(outdir, name + ".big.tlc.out")
    md = os.path.join(outdir, "mdbig_" + name)
    cmd = ["tlc", "-workers", str(workers), "-seed", str(seed), "-metadir", md, "-cleanup", "-noGenerateSpecTE",
           "-config", os.path.join("MC", os.path.basename(tmp)), os.path.join("MC", module + ".tla")]
    env = dict(os.environ, JAVA_TOOL_OPTIONS="-Dtlc2.tool.impl.Tool.cdot=true -Xss256m")
    t0 = time.time()
    complete = True
    with open(raw, "w") as f:
        try:
            subprocess.run(cmd, cwd=vlib.SPEC, stdout=f, stderr=subprocess.STDOUT, timeout=timeout, env=env)
        except subprocess.TimeoutExpired:
            complete = False
    os.remove(tmp)
    subprocess.run(["rm", "-rf", md])
    _, mcviol, gen, distinct, ok, errors = parse_tlc(raw)
    if not distinct:
        txt = open(raw, errors="replace").read()
        m = re.findall(r"([\d,]+) states generated[^\n]*?([\d,]+) distinct states found", txt)
        if m:
            gen, distinct = int(m[-1][0].replace(",", "")), int(m[-1][1].replace(",", ""))
    os.remove(raw)
    if errors and not ok and complete:
        raise vlib.ToolError("TLC failed on %s_thorough.cfg: %s" % (name, errors[:3]))
    return {"cfg": name + "_thorough.cfg", "tlc_states_generated": gen, "tlc_distinct_states": distinct,
            "tlc_complete": bool(ok and complete), "tlc_wall_s": round(time.time() - t0, 1), "mcviol": mcviol,
            "note": "specification-level model checking of the larger scope (schedule printing off)"}


def parse_tlc(raw):
    schedules = []
    mcviol = []
    gen = distinct = 0
    ok = False
    errors = []
    with open(raw, errors="replace") as f:
        for line in f:
            if line.startswith('"{'):
                v = json.loads(json.loads(line))
                if v.get("k") == "REPLAY":
                    schedules.append(v["h"])
                elif v.get("k") == "MCVIOL":
                    mcviol.append(v)
            elif "states generated" in line and "distinct states found" in line:
                m = re.search(r"([\d,]+) states generated.*?([\d,]+) distinct states found", line)
                if m:
                    gen, distinct = int(m.group(1).replace(",", "")), int(m.group(2).replace(",", ""))
            elif line.startswith("Model checking completed. No error has been found."):
                ok = True
            elif line.startswith("Error:"):
                errors.append(line.strip())
    return schedules, mcviol, gen, distinct, ok, errors


def leaves(schedules):
    """Maximal schedules: those that are not a proper prefix of another one."""
    keys = [tuple(json.dumps(c, sort_keys=True) for c in h) for h in schedules]
    prefixes = set()
    for k in keys:
        for n in range(1, len(k)):
            prefixes.add(k[:n])
    return [h for h, k in zip(schedules, keys) if k not in prefixes]


def add_kids(trace):
    """Adds to every line of a merged replay tree the list of the lines that follow it."""
    rows = []
    kids = {}
    with open(trace) as f:
        for k, line in enumerate(f, 1):
            e = json.loads(line)
            rows.append(e)
            kids.setdefault(e.get("parent", k - 1), []).append(e.get("id", k))
    with open(trace, "w") as o:
        for k, e in enumerate(rows, 1):
            e["kids"] = kids.get(e.get("id", k), [])
            o.write(json.dumps(e) + "\n")


def judge_traces(trace, outdir, tag, parts=8):
    """Splits a multi-run trace at Reset lines and evaluates the parts with parallel TLC instances."""
    chunks = []
    cur = []
    sizes = []
    with open(trace) as f:
        runs = []
        for line in f:
            if line.startswith('{"ev":"Reset"') or '"ev":"Reset"' in line[:40]:
                if cur:
                    runs.append(cur)
                cur = [line]
            else:
                cur.append(line)
        if cur:
            runs.append(cur)
    if not runs:
        return {"violations": [], "states": 0, "drift": []}
    parts = max(1, min(parts, len(runs)))
    files = []
    per = (len(runs) + parts - 1) // parts
    for p in range(parts):
        sub = runs[p * per:(p + 1) * per]
        if not sub:
            continue
        fn = os.path.join(outdir, "%s.part%d.ndjson" % (tag, p))
        with open(fn, "w") as o:
            for r in sub:
                o.writelines(r)
        files.append(fn)

    def one(fn):
        return vlib.tlc_trace(fn, fn + ".md", timeout=3000)

    res = {"violations": [], "states": 0, "drift": []}
    with ThreadPoolExecutor(max_workers=len(files)) as ex:
        for fn, r in zip(files, ex.map(one, files)):
            for v in r["violations"]:
                v["file"] = fn
            res["violations"] += r["violations"]
            res["drift"] += r["drift"]
            res["states"] += r["states"]
    return res


def run(pid, tier, seed, outdir):
    cov = {"states": 0, "transitions": 0, "behaviours_replayed": 0, "exhaustive": True, "models": []}
    viol_lines = []
    import random
    rnd = random.Random(seed)
    for name in CONFIGS[pid]:
        if tier == "quick" and name not in QUICK:
            continue
        module, ccfg = MODELS[name]
        raw, cfgfile, complete, wall = run_tlc(name, module, "quick", outdir, seed, timeout=240 if tier == "quick" else 1500)
        schedules, mcviol, gen, distinct, ok, errors = parse_tlc(raw)
        os.remove(raw)
        if errors and not ok:
            raise vlib.ToolError("TLC failed on %s: %s" % (cfgfile, errors[:3]))
        big = run_tlc_big(name, module, outdir, seed) if tier == "thorough" else None
        if big:
            mcviol = mcviol + big.pop("mcviol")
        lv = leaves(schedules)
        budget = REPLAY_BUDGET[tier]
        total = sum(len(h) for h in lv)
        chosen = lv
        if total > budget:
            rnd.shuffle(lv)
            chosen, acc = [], 0
            for h in lv:
                if acc + len(h) > budget:
                    break
                chosen.append(h)
                acc += len(h)
        spec_viol = [v for v in mcviol if any(b.startswith(pid + ".") for b in v["bad"])]
        # the schedules are merged into a few tries (one per parallel TLC instance): an event shared by many
        # schedules is executed by every schedule but written and judged once
        groups = 8 if len(chosen) >= 64 else 1
        chosen.sort(key=lambda h: json.dumps(h, sort_keys=True))
        per = (len(chosen) + groups - 1) // groups if chosen else 1
        cfgjson = os.path.join(outdir, name + ".cluster.json")
        json.dump(ccfg, open(cfgjson, "w"))
        n_sched = n_ev = n_skip = 0
        parts = []
        sched_of = {}
        for g in range(groups):
            sub = ([{"h": v["h"], "mcviol": v["bad"]} for v in spec_viol[:50]] if g == 0 else []) + \
                  [{"h": h} for h in chosen[g * per:(g + 1) * per]]
            if not sub:
                continue
            lines = os.path.join(outdir, "%s.schedules.%d.ndjson" % (name, g))
            with open(lines, "w") as o:
                for x in sub:
                    o.write(json.dumps(x) + "\n")
            trace = os.path.join(outdir, "%s.replay.%d.ndjson" % (name, g))
            p = vlib.run([vlib.SIMRUN, "replaymc", "--tree", "--lines", lines, "--cfg", cfgjson, "--out", trace], timeout=3000)
            m = re.search(r"replayed (\d+) schedules, (\d+) events, (\d+) inapplicable", p.stdout)
            if m:
                n_sched += int(m.group(1)); n_ev += int(m.group(2)); n_skip += int(m.group(3))
            add_kids(trace)
            parts.append((trace, lines))

        def one(item):
            return vlib.tlc_trace(item[0], item[0] + ".md", timeout=3000, heap="8g")

        res = {"violations": [], "states": 0, "drift": []}
        with ThreadPoolExecutor(max_workers=max(1, len(parts))) as ex:
            for (trace, lines), r in zip(parts, ex.map(one, parts)):
                for v in r["violations"]:
                    v["lines"] = lines
                res["violations"] += r["violations"]
                res["drift"] += r["drift"]
                res["states"] += r["states"]
                os.remove(trace)
        mine = [v for v in res["violations"] if any(nm.startswith(pid + ".") for nm in v["names"])]
        model = {"model": cfgfile, "tlc_states_generated": gen, "tlc_distinct_states": distinct, "tlc_complete": bool(ok and complete),
                 "tlc_wall_s": round(wall, 1), "schedules_printed": len(schedules), "maximal_schedules": len(lv),
                 "schedules_replayed_on_impl": n_sched, "impl_events": n_ev, "inapplicable_choices": n_skip,
                 "impl_drift_events": len(res["drift"]), "spec_level_violations": len(spec_viol),
                 "impl_violations": len(mine)}
        if big:
            model["larger_scope"] = big
            cov["states"] += big["tlc_distinct_states"]
            cov["transitions"] += big["tlc_states_generated"]
        cov["models"].append(model)
        cov["states"] += distinct
        cov["transitions"] += gen
        cov["behaviours_replayed"] += n_sched
        cov["exhaustive"] = cov["exhaustive"] and model["tlc_complete"]
        if len(res["drift"]) > 0:
            log("DRIFT property=%s model=%s events=%d (first: %s)" % (pid, name, len(res["drift"]), res["drift"][0]))
        # the run index inside a part file identifies the schedule
        for v in mine[:10]:
            rp = os.path.join(outdir, "replay-%s-%s-run%d.json" % (name, v["names"][0], v["run"]))
            with open(v["lines"]) as f:
                for k, line in enumerate(f, 1):
                    if k == v["run"]:
                        sched = json.loads(line)
                        json.dump({"property": pid, "model": name, "predicate": v["names"], "cfg": ccfg,
                                   "profile": "mc", "seed": 0, "choices": sched["h"], "mc": True,
                                   "failing_event_seq": v["seq"]}, open(rp, "w"))
                        break
            viol_lines.append("VIOLATION property=%s replay=%s" % (pid, rp))
            viol_lines.append("  predicate=%s model=%s schedule=%d event_seq=%d (TLC schedule replayed on the real code)" %
                              (",".join(n for n in v["names"] if n.startswith(pid + ".")), name, v["run"], v["seq"]))
        if spec_viol and not mine:
            raise vlib.ToolError("the specification violates %s at %s but the real code does not reproduce it: the spec "
                                 "misrepresents the code (schedules kept in %s)" % (spec_viol[0]["bad"], cfgfile, outdir))
    return {"coverage": cov, "violations": viol_lines}
