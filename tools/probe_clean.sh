#!/bin/sh
# probe_clean.sh <profile> <count> [seed]: run one profile on the current tree, print per-predicate counts
cd /verif
./harness/target/release/simrun gen --profile $1 --seed ${3:-101} --count $2 --out out/t/probec_$1.ndjson 2>&1 | tail -1
cd spec && JAVA_TOOL_OPTIONS="-Xss1g -Dtlc2.tool.queue.IStateQueue=StateDeque" TRACE=/verif/out/t/probec_$1.ndjson tlc -workers 1 -metadir /verif/out/tlatest/mdc_$1 -cleanup -noGenerateSpecTE -config Trace.cfg Trace.tla > /verif/out/t/probec_$1.tlc 2>&1
python3 /verif/tools/tlcsum.py /verif/out/t/probec_$1.tlc
