#!/bin/sh
# runs every seeded change against the check of the property it targets (and optional extra checks)
cd /verif
for d in seeded/*/; do
  s=$(basename $d)
  python3 tools/try_seed.py seeded/$s $EXTRA 2>&1 | tail -1
done
