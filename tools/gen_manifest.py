#!/usr/bin/env python3
"""Regenerates /verif/MANIFEST.json from the tables below (keep in sync with DESIGN.md)."""
import json, os, sys
ROOT = os.path.dirname(os.path.dirname(os.path.abspath(__file__)))
sys.path.insert(0, os.path.join(ROOT, "tools"))

SYSTEM = {
 "C01": ("§7 C01", "ghost global committed log CL (first report wins) + Agree/Handed/Snapshot predicates"),
 "C02": ("§7 C02", "history set of (term, leader) pairs; at most one node per term"),
 "C03": ("§7 C03", "LeaderComplete against CL by commit term; GrantOnlyUpToDate on every emitted grant"),
 "C04": ("§7 C04", "commit-advance action predicates against the harness-owned durable images of every node"),
 "C05": ("§7 C05", "pairwise log matching incl. unstable entries and durable images of crashed nodes; append-only/immutable action predicates"),
 "C06": ("§7 C06", "released messages judged against the durable image at release time; told-terms/votes history across restarts"),
 "C07": ("§7 C07", "every Ready/LightReady logged in full and judged against pre-state; has_ready recomputed from the projected state"),
 "C08": ("§7 C08", "reads tagged with the max commit index at issue; every returned read state judged"),
 "C09": ("§7 C09", "conf entries beyond applied on leaders; proposal filter; configuration as a function of applied index across nodes/restarts/snapshots; election start predicates"),
 "C10": ("§7 C10", "deterministic fault-free stabilisation suffix after every chaos run; Converged judged by TLC at its end"),
 "C13": ("§7 C13", "per-message well-formedness, window/probe/snapshot gating and uncommitted-size budget recomputed from the log"),
 "C15": ("§7 C15", "install/ignore/fast-forward action predicates on MsgSnapshot delivery, send-only-if-needed, resume after report"),
 "C16": ("§7 C16", "pre-vote request inertness and no self term bump as action predicates on every step"),
 "C17": ("§7 C17", "TimeoutNow only when caught up, proposals refused during transfer, abort rules, ignored targets"),
 "C20": ("§7 C20", "every call runs under catch_unwind; any panic in a contract-abiding execution is a violation"),
}
COMPONENT = {}
NOT_APPLICABLE = {}

def main():
    try:
        import manifest_extra
        COMPONENT.update(manifest_extra.COMPONENT)
        NOT_APPLICABLE.update(manifest_extra.NOT_APPLICABLE)
        extra = manifest_extra
    except ImportError:
        extra = None
    def mc_sentence(pid, lvl):
        if lvl != "model_checking":
            return (" No TLC model-checking scope is claimed for this property: it is a bounded-liveness statement decided on recorded "
                    "executions (fault prefix + fair suffix with leadership rotation), all judged by TLC.")
        try:
            import mc
            models = ", ".join(mc.CONFIGS.get(pid, []))
        except Exception:
            models = "see tools/mc.py"
        return (" In addition TLC model-checks spec/RaftRs.tla (the cluster of Node.tla/RawNodeOps.tla nodes with storage, application "
                "automaton and network) in the scopes spec/MC/{%s}.cfg with every predicate evaluated on every transition; the maximal "
                "schedules TLC prints are merged into replay trees, executed on the real RawNode cluster and judged by TLC again "
                "(specification and implementation must agree step by step: zero drift). Thorough tier: the *_thorough.cfg scopes are "
                "model-checked at the specification level, more and longer recorded executions are judged. Exhaustive only inside the "
                "stated scopes; outside them the claim is exploration." % models)
    checks = []
    for pid, (ref, how) in sorted(SYSTEM.items()):
        lvl = getattr(extra, "LEVEL", {}).get(pid, "exploration") if extra else "exploration"
        checks.append({
            "property_id": pid,
            "quick_cmd": "./check %s --tier quick" % pid,
            "thorough_cmd": "./check %s --tier thorough" % pid,
            "evidence_file": "evidence/%s.json" % pid,
            "replay_cmd_template": "./check %s --replay {path}" % pid,
            "engine": "tlc-trace",
            "level_claimed": {
                "category": lvl,
                "text": getattr(extra, "LEVEL_TEXT", {}).get(pid, "") if extra and pid in getattr(extra, "LEVEL_TEXT", {}) else
                        ("The property is a set of named TLA+ predicates in spec/Props.tla (%s). Seeded fault-heavy executions of the real "
                         "RawNode cluster (loss, duplication, reordering, partitions, crash/restart at every point of the Ready cycle, sync and "
                         "async persistence) plus directed schedules are recorded and TLC evaluates every predicate on every state of every "
                         "recorded execution (spec/Trace.tla).%s" % (how, mc_sentence(pid, lvl))),
                "design_ref": "DESIGN.md " + ref,
            },
            "level_note": "Trusted: TLC, the harness projection (harness/src/view.rs) and application automaton (harness/src/sim.rs, DESIGN §2.2: "
                          "M1 release, atomic Ready writes), the cfg(tikv_raft_rs_verif) accessors. Explored executions only; bounds in evidence.",
            "technique": getattr(extra, "TECHNIQUE", {}).get(pid, "TLA+ property predicates evaluated by TLC on recorded implementation traces (trace validation, observation mode)") if extra else
                         "TLA+ property predicates evaluated by TLC on recorded implementation traces (trace validation, observation mode)",
        })
    for pid, c in sorted(COMPONENT.items()):
        checks.append(c)
    m = {
        "version": 1,
        "setup_cmd": "cd /verif && ./tools/setup.sh",
        "hooks": {
            "guard": "tikv_raft_rs_verif",
            "enable": "harness/.cargo/config.toml passes --cfg tikv_raft_rs_verif (rustflags) when the harness crate builds /repo as a path dependency",
            "baseline_off_cmd": "cd /repo && cargo test --workspace --no-fail-fast --offline",
            "source_commits": ["406e9e2", "6cfbfc7", "7b7315a"],
            "add_only": True,
        },
        "engines": [
            {"name": "tlc-trace", "path": "spec/Trace.tla", "serves_properties": sorted(SYSTEM.keys()),
             "kind_free_text": "TLC evaluating spec/Props.tla on ndjson traces recorded from real RawNode clusters by harness/simrun"},
        ] + (getattr(extra, "ENGINES", []) if extra else []),
        "checks": checks,
        "notes": "Genuine defects found and repaired in /repo: see KNOWN_FINDINGS.txt (fixed: entries) and DESIGN.md §8.",
        "not_applicable": [{"property_id": k, "reason": v} for k, v in sorted(NOT_APPLICABLE.items())],
    }
    json.dump(m, open(os.path.join(ROOT, "MANIFEST.json"), "w"), indent=1)
    print("wrote MANIFEST.json with", len(checks), "checks,", len(m["not_applicable"]), "not_applicable")

if __name__ == "__main__":
    main()
