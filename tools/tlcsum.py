#!/usr/bin/env python3
"""tlcsum.py <tlc-output-file>: per-predicate counts (lines, distinct runs) of VIOLATION / DRIFT reports"""
import sys, os, collections
sys.path.insert(0, os.path.dirname(os.path.abspath(__file__)))
import vlib
out = open(sys.argv[1], errors="replace").read()
lines = collections.Counter(); runs = collections.defaultdict(set)
for m in vlib.VIOL_RE.finditer(out):
    for n in [x.strip().strip('"') for x in m.group(1).split(",") if x.strip()]:
        lines[n] += 1; runs[n].add(m.group(3))
for m in vlib.DRIFT_RE.finditer(out):
    n = "DRIFT:" + m.group(1)
    lines[n] += 1; runs[n].add(m.group(4))
for n, c in lines.most_common(14):
    print("%6d lines %3d runs  %s" % (c, len(runs[n]), n))
if "Model checking completed. No error has been found." not in out:
    print("TLC DID NOT COMPLETE"); print(out[-1500:])
