#!/bin/sh
# Build everything the checks need, offline, from files on disk only.
set -e
cd "$(dirname "$0")/.."
export CARGO_NET_OFFLINE=true
[ -f harness/Cargo.lock ] || cp /repo/Cargo.lock harness/Cargo.lock
(cd harness && cargo build --release --offline)
for m in Base Props Trace Log Inflights Quorum MemStorage ConfChange Node RawNodeOps RaftRs; do (cd spec && tla-sany $m.tla >/dev/null) || { echo "SANY failed for $m"; exit 1; }; done
mkdir -p out evidence
echo setup-ok
