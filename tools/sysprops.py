"""System-level property checks (C01-C10, C13, C15-C17, C20).

For each property: (B) seeded fault-heavy executions of the real RawNode cluster are recorded and
every predicate of Props.tla is evaluated by TLC on every state of the execution (Trace.tla);
(C) directed schedules from the corpus are replayed on the real code and judged the same way;
(S/A) TLC model checking of the faithful specification with replay of its behaviours
(added by mc.py when the property has a model-checking configuration).
A violation is reported only for predicates whose name starts with the property id."""
import json
import os
import shutil
import time
import glob

import vlib
from vlib import log

# profile plans: (profile, runs_quick, runs_thorough)
PLANS = {
    "C01": [("core", 3, 40), ("crashy", 3, 40), ("learners", 2, 25), ("snap", 3, 30), ("conf", 2, 30), ("single", 2, 25), ("reelect", 2, 40), ("prevote", 2, 20),
            ("s_reelect", 8, 60), ("s_lagsnap", 2, 20), ("s_dualpv", 6, 40), ("s_dual", 2, 20), ("s_reqsnap", 2, 20), ("s_transfer", 3, 30), ("s_stalematch", 3, 30), ("s_jointrestart", 2, 15), ("s_stalecand", 2, 20), ("s_jointsplit", 5, 30)],
    "C02": [("core", 3, 40), ("crashy", 3, 40), ("prevote", 3, 30), ("conf", 2, 30), ("joint", 2, 30), ("transfer", 3, 30), ("contend", 4, 30), ("contendpv", 4, 30),
            ("s_transfer", 4, 40), ("s_dualpv", 5, 40), ("s_dual", 3, 30), ("s_jointrestart", 4, 30), ("s_jointsplit", 2, 20)],
    "C03": [("core", 3, 40), ("crashy", 3, 40), ("snap", 3, 30), ("prevote", 3, 30), ("five", 2, 20), ("transfer", 3, 30), ("s_transfer", 8, 60), ("s_reelect", 4, 30),
            ("s_dualpv", 2, 20), ("s_reqsnap", 2, 20), ("s_stalematch", 2, 20), ("s_prio3", 6, 40), ("s_stalecand", 3, 30), ("s_jointsplit", 2, 20)],
    "C04": [("async", 3, 40), ("crashy", 3, 40), ("joint", 4, 40), ("five", 2, 25), ("single", 2, 20), ("reelect", 3, 40), ("s_reelect", 5, 40), ("s_confmix", 4, 40),
            ("s_reqsnap", 2, 20), ("s_asyncover", 2, 20), ("s_stalematch", 3, 30), ("group", 3, 30), ("s_batch", 2, 20)],
    "C05": [("core", 3, 40), ("flow", 4, 40), ("single", 2, 30), ("crashy", 3, 40), ("s_flowelect", 4, 40), ("s_reelect", 3, 30), ("s_dualpv", 5, 40), ("s_sizes", 10, 60), ("s_stalematch", 1, 10), ("s_batch", 4, 30)],
    "C06": [("async", 4, 40), ("single", 3, 40), ("crashy", 3, 40), ("prevote", 2, 30), ("shrink", 2, 30), ("contend", 4, 30), ("transfer", 2, 30), ("s_transfer", 2, 20),
            ("s_asyncover", 3, 30), ("s_asyncself", 3, 30)],
    "C07": [("async", 4, 40), ("flow", 3, 40), ("snap", 3, 30), ("single", 5, 40), ("conf", 2, 20), ("contend", 4, 40), ("s_lagsnap", 3, 30), ("s_asyncover", 4, 40),
            ("s_sizes", 3, 30)],
    "C08": [("read", 5, 80), ("readjoint", 4, 80), ("s_staleread", 8, 80), ("s_stalereadjoint", 8, 80)],
    "C09": [("conf", 4, 40), ("joint", 4, 40), ("confv1", 3, 40), ("shrink", 2, 30), ("transfer", 2, 30), ("s_confmix", 5, 60), ("s_transfer", 3, 40), ("s_confbatch", 6, 60),
            ("s_demote", 6, 40), ("s_jointrestart", 3, 30), ("s_lazycamp", 4, 30)],
    "C10": [("live", 8, 80), ("s_lagsnap_live", 8, 60), ("s_transfer_live", 6, 60)],
    "C13": [("flow", 6, 80), ("snap", 3, 40), ("s_lagsnap", 4, 60), ("s_flowelect", 4, 60), ("s_tailelect", 4, 40), ("s_staleack", 4, 40), ("s_sizes", 4, 40), ("s_batch", 2, 20), ("s_staleprobe", 3, 30)],
    "C15": [("snap", 6, 100), ("conf", 2, 20), ("s_lagsnap", 8, 100), ("s_reqsnap", 8, 60), ("s_snapdup", 6, 60), ("s_staleack", 4, 30), ("s_jointrestart", 2, 20), ("s_snaplazy", 2, 20)],
    "C16": [("prevote", 6, 80), ("checkquorum", 3, 40), ("lease3", 5, 100), ("lease5", 7, 100), ("s_dualpv", 2, 20)],
    "C17": [("transfer", 6, 80), ("live", 2, 30), ("s_transfer", 8, 80), ("s_demote", 3, 30), ("s_transfer_cq", 5, 40)],
    "C20": [("core", 1, 15), ("async", 2, 15), ("crashy", 2, 20), ("single", 2, 15), ("shrink", 2, 25), ("flow", 2, 15),
            ("snap", 2, 20), ("conf", 2, 15), ("joint", 3, 15), ("confv1", 2, 15), ("read", 2, 10), ("transfer", 2, 15),
            ("prevote", 1, 15), ("live", 1, 10), ("five", 1, 10), ("learners", 1, 10), ("readjoint", 2, 15), ("reelect", 1, 10),
            ("s_staleread", 2, 15), ("s_stalereadjoint", 1, 15), ("s_lagsnap", 3, 20), ("s_transfer", 2, 15), ("s_reelect", 1, 10),
            ("s_flowelect", 1, 10), ("s_confmix", 3, 20), ("s_lagread", 4, 30), ("s_confbatch", 1, 10),
            ("s_dualpv", 1, 10), ("s_asyncover", 1, 10), ("s_demote", 1, 10), ("s_tailelect", 1, 10), ("s_staleack", 1, 10),
            ("s_reqsnap", 2, 10), ("s_snapdup", 2, 15), ("s_sizes", 2, 15), ("s_jointrestart", 2, 15), ("s_stalematch", 1, 10), ("leaseread", 2, 15), ("group", 2, 15), ("s_batch", 1, 10), ("s_asyncself", 1, 10), ("s_prio3", 1, 10), ("s_stalecand", 1, 10), ("s_snaplazy", 2, 20), ("s_lazycamp", 1, 10), ("s_staleprobe", 1, 10), ("s_jointsplit", 1, 10)],
}
CHECKS = set(PLANS.keys())

# which counters make a recorded run non-trivial for the property (all must be > 0)
NONTRIVIAL = {
    "C01": ["commits", "handed"],
    "C02": ["leaders"],
    "C03": ["leaders", "grants"],
    "C04": ["leader_commits"],
    "C05": ["leaders", "appends"],
    "C06": ["released", "leaders"],
    "C07": ["readies", "handed"],
    "C08": ["reads_answered"],
    "C09": ["conf_applied"],
    "C10": ["stable_end"],
    "C13": ["appends_sent", "leaders"],
    "C15": ["snap_installed"],
    "C16": ["prevotes"],
    "C17": ["timeout_now"],
    "C20": ["calls"],
}


def run_stats(evs):
    """Per-run antecedent counters measured from the recorded execution."""
    runs = {}
    cur = None
    prev = {}
    for e in evs:
        if e["ev"] == "Reset":
            cur = {"seed": e["seed"], "profile": e["profile"], "events": 0}
            for k in ["commits", "handed", "leaders", "grants", "leader_commits", "appends", "released", "readies",
                      "reads_answered", "conf_applied", "stable_end", "appends_sent", "snap_installed", "prevotes",
                      "timeout_now", "calls", "crashes", "restarts", "truncations", "panics", "drops", "dups", "bogus_rejected",
                      "async_adv", "snap_sent", "joint_entered"]:
                cur[k] = 0
            runs[e["run"]] = cur
            prev = {}
            continue
        if cur is None:
            continue
        cur["events"] += 1
        ev = e["ev"]
        if ev == "StableEnd":
            cur["stable_end"] += 1
            continue
        n = e.get("n", 0)
        if ev == "Drop":
            cur["drops"] += 1
        if n == 0:
            continue
        s = e["s"] if e.get("up") else None
        p = prev.get(n)
        if ev == "Crash":
            cur["crashes"] += 1
        if ev == "Restart":
            cur["restarts"] += 1
        if e.get("rk") == "panic":
            cur["panics"] += 1
        if ev not in ("Crash", "Restart", "Init", "Fsync", "Compact", "MakeSnap"):
            cur["calls"] += 1
        if ev == "Deliver" and e["a"].get("keep"):
            cur["dups"] += 1
        if ev == "Bogus" and e.get("rk") == "err":
            cur["bogus_rejected"] += 1
        if ev == "AdvanceAsync":
            cur["async_adv"] += 1
        if ev in ("Ready", "Advance", "AdvanceAppend"):
            cur["readies"] += 1
            cur["handed"] += len(e["rd"]["committed"])
            cur["reads_answered"] += len(e["rd"].get("readStates", []))
        cur["released"] += len(e["out"])
        for g in e["gen"]:
            if g["ty"] in ("VoteResp", "PreVoteResp") and not g["rej"]:
                cur["grants"] += 1
            if g["ty"] == "App" and g["ents"]:
                cur["appends_sent"] += 1
            if g["ty"] == "PreVote":
                cur["prevotes"] += 1
            if g["ty"] == "TimeoutNow":
                cur["timeout_now"] += 1
            if g["ty"] == "Snap":
                cur["snap_sent"] += 1
        if s is not None:
            if p is not None and e.get("ev") not in ("Restart", "Init"):
                if s["role"] == "L" and p["role"] != "L":
                    cur["leaders"] += 1
                if s["log"]["committed"] > p["log"]["committed"]:
                    cur["commits"] += 1
                    if s["role"] == "L":
                        cur["leader_commits"] += 1
                if s["log"]["last"] > p["log"]["last"]:
                    cur["appends"] += 1
                if s["log"]["last"] < p["log"]["last"] or (s["log"]["offset"] < p["log"]["offset"]):
                    cur["truncations"] += 1
                if s["log"]["usnap"]["i"] > p["log"]["usnap"]["i"]:
                    cur["snap_installed"] += 1
                if s["conf"] != p["conf"] and ev in ("Apply", "Advance"):
                    cur["conf_applied"] += 1
                    if s["conf"]["outgoing"] and not p["conf"]["outgoing"]:
                        cur["joint_entered"] += 1
            prev[n] = s
        else:
            prev.pop(n, None)
    return runs


def sample_event(e):
    s = e.get("s", {})
    return {"ev": e["ev"], "n": e.get("n"), "a": e.get("a"), "r": e.get("r"),
            "post": {"role": s.get("role"), "term": s.get("term"), "committed": s.get("log", {}).get("committed"),
                     "last": s.get("log", {}).get("last")} if e.get("up") else None,
            "released": [(m["ty"], m["from"], m["to"], m["term"]) for m in e.get("out", [])][:4]}


def run(pid, tier, seed, replay, t0):
    outdir = os.path.join(vlib.OUT, pid)
    shutil.rmtree(outdir, ignore_errors=True)
    os.makedirs(outdir, exist_ok=True)
    known, _fixed = vlib.read_known()
    known = [k for k in known if k.get("property") == pid]

    violations = []      # (name, trace file, run, seq, profile, seed)
    total_states = 0
    total_events = 0
    nontrivial = 0
    n_runs = 0
    agg = {}
    samples = []
    traces = 0
    per_profile = []
    drifts = []
    n_directed_skipped = 0

    jobs = []
    if replay:
        jobs.append(("replay", replay))
    else:
        for (prof, q, t) in PLANS[pid]:
            cnt = q if tier == "quick" else t
            if cnt > 0:
                jobs.append(("gen", prof, cnt))
        for f in sorted(glob.glob(os.path.join(vlib.ROOT, "corpus", "directed", "*.json"))):
            meta = json.load(open(f)).get("properties")
            if meta is None or pid in meta:
                jobs.append(("directed", f))
        # channel C: shortest counterexamples of the specification with one mechanism ablated
        for f in sorted(glob.glob(os.path.join(vlib.ROOT, "corpus", "ablation", "*.json"))):
            if pid in json.load(open(f)).get("properties", []):
                jobs.append(("directed", f))

    prepared = []
    for job in jobs:
        if job[0] == "gen":
            _, prof, cnt = job
            trace = os.path.join(outdir, "%s.ndjson" % prof)
            chdir = os.path.join(outdir, "choices")
            base_seed = seed * 1000 + 1
            n_ev, n_panic = vlib.simrun_gen(prof, base_seed, cnt, trace, choices_dir=chdir)
            label = prof
        else:
            src = job[1]
            label = os.path.basename(src)
            trace = os.path.join(outdir, label.replace(".json", "") + ".ndjson")
            cf = json.load(open(src))
            if cf.get("mc"):              # a TLC schedule (choices carry rt fields and message keys)
                lines = trace + ".lines"
                with open(lines, "w") as o:
                    o.write(json.dumps({"h": cf["choices"]}) + "\n")
                cj = trace + ".cluster.json"
                json.dump(cf["cfg"], open(cj, "w"))
                pr = vlib.run([vlib.SIMRUN, "replaymc", "--lines", lines, "--cfg", cj, "--out", trace], timeout=600)
                import re as _re
                mm = _re.search(r"replayed (\d+) schedules, (\d+) events, (\d+) inapplicable", pr.stdout)
                n_ev = int(mm.group(2)) if mm else 0
                n_directed_skipped += int(mm.group(3)) if mm else 0
            else:
                if "choices_file" in cf:      # a replay descriptor written by an earlier failing run
                    src = cf["choices_file"]
                n_ev, _skipped = vlib.simrun_replay(src, trace)
        prepared.append((job, label, trace, n_ev))

    from concurrent.futures import ThreadPoolExecutor

    def _judge(item):
        return vlib.tlc_trace(item[2], item[2] + ".md")

    with ThreadPoolExecutor(max_workers=6) as ex:
        judged = list(ex.map(_judge, prepared))

    for (job, label, trace, n_ev), res in zip(prepared, judged):
        total_states += res["states"]
        total_events += n_ev
        traces += 1
        evs = vlib.load_trace(trace)
        stats = run_stats(evs)
        for r, st in stats.items():
            n_runs += 1
            if all(st.get(k, 0) > 0 for k in NONTRIVIAL[pid]):
                nontrivial += 1
            for k, v in st.items():
                if isinstance(v, int) and k not in ("seed",):
                    agg[k] = agg.get(k, 0) + v
        for d in res["drift"]:
            d["source"] = label
            drifts.append(d)
            if len(drifts) <= 10:
                log("DRIFT property=%s source=%s event=%s fields=%s run=%d seq=%d" % (pid, label, d["ev"], ",".join(d["fields"]), d["run"], d["seq"]))
        per_profile.append({"source": label, "events": n_ev, "tlc_states": res["states"], "drift": len(res["drift"]),
                            "violations_all_properties": sum(len(v["names"]) for v in res["violations"])})
        if len(samples) < 3 and len(evs) > 30:
            k = min(len(evs) - 1, 25 + 7 * len(samples))
            samples.append({"source": label, "events": [sample_event(e) for e in evs[k:k + 4] if e["ev"] not in ("Reset", "StableEnd")]})
        for v in res["violations"]:
            mine = [nm for nm in v["names"] if nm.startswith(pid + ".")]
            others = [nm for nm in v["names"] if not nm.startswith(pid + ".")]
            if others:
                log("NOTE other-property predicates failed at %s run=%d seq=%d: %s" % (label, v["run"], v["seq"], ",".join(others)))
            for nm in mine:
                st = stats.get(v["run"], {})
                violations.append({"name": nm, "trace": trace, "run": v["run"], "seq": v["seq"],
                                   "profile": st.get("profile", label), "seed": st.get("seed", 0), "job": job[0],
                                   "src": job[1] if job[0] != "gen" else None})

    # drift-guided exploration: where the real code left the specification, explore the neighbourhood of that
    # execution (same prefix, new random continuations) and judge those executions too
    explored = 0
    if drifts and not replay:
        seen = set()
        srcs = []
        for d in drifts:
            st = None
            key = (d["source"], d["run"])
            if key in seen:
                continue
            seen.add(key)
            srcs.append(d)
        for d in srcs[:4]:
            tr = os.path.join(outdir, "%s.ndjson" % d["source"])
            if not os.path.exists(tr):
                continue
            seed_of_run = None
            with open(tr) as f:
                for line in f:
                    if '"ev":"Reset"' in line[:60]:
                        e = json.loads(line)
                        if e["run"] == d["run"]:
                            seed_of_run = e["seed"]
                            break
            chf = os.path.join(outdir, "choices", "%s-%s.json" % (d["source"], seed_of_run))
            if seed_of_run is None or not os.path.exists(chf):
                continue
            trace = os.path.join(outdir, "explore-%s-%s.ndjson" % (d["source"], seed_of_run))
            sdir = os.path.join(outdir, "choices-explore-%s-%s" % (d["source"], seed_of_run))
            n_ev = vlib.simrun_resume(chf, d["seq"] + 2, "explore", seed * 7919 + 17, 6 if tier == "quick" else 30,
                                      300, trace, sdir)
            res = vlib.tlc_trace(trace, os.path.join(outdir, "md"))
            total_states += res["states"]
            total_events += n_ev
            traces += 1
            explored += 1
            per_profile.append({"source": "explore:" + d["source"], "events": n_ev, "tlc_states": res["states"],
                                "drift": len(res["drift"]),
                                "violations_all_properties": sum(len(v["names"]) for v in res["violations"])})
            stats = run_stats(vlib.load_trace(trace))
            for v in res["violations"]:
                for nm in [nm for nm in v["names"] if nm.startswith(pid + ".")]:
                    st = stats.get(v["run"], {})
                    violations.append({"name": nm, "trace": trace, "run": v["run"], "seq": v["seq"], "profile": "explore",
                                       "seed": st.get("seed", 0), "job": "explore",
                                       "src": os.path.join(sdir, "explore-%s.json" % st.get("seed", 0))})

    # classify against known findings (none suppress unless listed)
    rc = 0
    reported = set()
    n_viol = 0
    for v in violations:
        key = (v["name"], v["profile"], v["seed"])
        if key in reported:
            continue
        reported.add(key)
        kf = [k for k in known if k.get("sig") == v["name"] and k.get("profile") == v["profile"]]
        if kf:
            log("KNOWN-FINDING: property=%s %s" % (pid, kf[0]["text"]))
            continue
        n_viol += 1
        rdir = os.path.join(outdir, "replay")
        os.makedirs(rdir, exist_ok=True)
        if v["job"] == "gen":
            chf = os.path.join(outdir, "choices", "%s-%d.json" % (v["profile"], v["seed"]))
        else:
            chf = v["src"]
        rp = os.path.join(rdir, "%s-%s-%s.json" % (v["name"], v["profile"], v["seed"]))
        desc = {"property": pid, "predicate": v["name"], "profile": v["profile"], "seed": v["seed"],
                "failing_event_seq": v["seq"], "choices_file": chf, "profile_name": v["profile"],
                "how": "./check %s --replay %s" % (pid, rp)}
        # make the replay file self-contained
        try:
            cf = json.load(open(chf))
            desc["cfg"] = cf.get("cfg")
            desc["choices"] = cf.get("choices")
            desc["choices_file"] = rp + ".choices.json"
            json.dump(cf, open(desc["choices_file"], "w"))
        except Exception:
            pass
        json.dump(desc, open(rp, "w"))
        log("VIOLATION property=%s replay=%s" % (pid, rp))
        log("  predicate=%s profile=%s seed=%s event_seq=%s" % (v["name"], v["profile"], v["seed"], v["seq"]))
        rc = 1

    wall = time.time() - t0
    # model-checking leg (if available for this property)
    mc_cov = {}
    try:
        import mc
        if not replay and pid in mc.CONFIGS:
            mc_res = mc.run(pid, tier, seed, outdir)
            mc_cov = mc_res["coverage"]
            if mc_res["violations"]:
                for line in mc_res["violations"]:
                    log(line)
                rc = 1
                n_viol += len(mc_res["violations"])
    except ImportError:
        pass

    coverage = {
        "evaluations": total_events,
        "distinct_nontrivial": nontrivial,
        "rule": "one case = one recorded execution of the real RawNode cluster (distinct seed/profile, or a directed schedule); "
                "non-trivial for %s iff all of %s occurred in it; every Props.tla predicate is evaluated by TLC on every "
                "state of every execution" % (pid, NONTRIVIAL[pid]),
        "samples": samples if samples else [{"note": "no events"}],
        "states": max(1, total_states + mc_cov.get("states", 0)),
        "transitions": max(1, total_events + mc_cov.get("transitions", 0)),
        "traces_validated_against_impl": traces + mc_cov.get("behaviours_replayed", 0),
        "exhaustive": bool(mc_cov.get("exhaustive", False)),
        "executions": n_runs,
        "impl_events_judged_by_tlc": total_events,
        "antecedent_counters": agg,
        "directed_schedule_choices_refused_by_impl": n_directed_skipped,
        "drift_guided_explorations": explored,
        "conformance_divergences": len(drifts),
        "conformance_divergence_samples": drifts[:5],
        "conformance_note": "every event's successor is also computed by spec/Node.tla+RawNodeOps.tla from the previous implementation state and compared field by field with the projected implementation state (DRIFT lines); drift is not a violation",
        "per_source": per_profile,
        "model_checking": mc_cov,
    }
    assumptions = [
        "application obeys the Ready/advance contract of DESIGN.md 2.2 (M1: persisted messages released at/after on_persist_ready)",
        "one Ready's entries+hard state+snapshot become durable atomically",
        "election timeouts are drawn by the harness through the cfg(tikv_raft_rs_verif) hook (every value is one the RNG could return)",
        "predicates are those of spec/Props.tla with the prefix %s." % pid,
    ]
    vlib.write_evidence(pid, tier, seed, "model_checking" if mc_cov else "exploration", coverage, assumptions,
                        time.time() - t0, n_viol)
    log("check %s: %d executions, %d events, %d TLC states, nontrivial=%d, violations=%d, %.1fs" %
        (pid, n_runs, total_events, total_states, nontrivial, n_viol, time.time() - t0))
    return rc
