#!/bin/sh
# probe_seed.sh <seed-dir> <profile> <count> [seed]: apply a seeded change, run one profile, print per-predicate
# counts of violating lines and of distinct runs, revert
cd /verif
git -C /repo apply /verif/seeded/$1/patch.diff || exit 1
(cd harness && cargo build --release 2>&1 | grep -E "^error" -A5)
./harness/target/release/simrun gen --profile $2 --seed ${4:-101} --count $3 --out out/t/probe.ndjson 2>&1 | tail -1
git -C /repo checkout -- .
cd spec && JAVA_TOOL_OPTIONS="-Xss1g -Dtlc2.tool.queue.IStateQueue=StateDeque" TRACE=/verif/out/t/probe.ndjson tlc -workers 1 -metadir /verif/out/tlatest/mdp -cleanup -noGenerateSpecTE -config Trace.cfg Trace.tla 2>&1 | grep -E "VIOL|DRIFT" > /verif/out/t/probe.tlc
python3 - <<'P'
import re,collections
lines=collections.Counter(); runs=collections.defaultdict(set)
for l in open('/verif/out/t/probe.tlc'):
    m=re.match(r'<<"(VIOLATION|DRIFT)", (.*), (\d+), (\d+), (\d+)>>',l.strip())
    if not m: continue
    kind,body,line,run,seq=m.groups()
    names=re.findall(r'"([A-Za-z0-9_.]+)"',body)
    if kind=="DRIFT": names=["DRIFT:"+names[0]]
    for n in names:
        lines[n]+=1; runs[n].add(run)
for n,c in lines.most_common(12):
    print("%6d lines %3d runs  %s"%(c,len(runs[n]),n))
P
