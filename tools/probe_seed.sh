#!/bin/sh
# probe_seed.sh <seed-dir> <profile> <count> [seed]: apply a seeded change, run one profile, print per-predicate
# counts of violating lines and of distinct runs, revert
cd /verif
git -C /repo apply /verif/seeded/$1/patch.diff || exit 1
(cd harness && cargo build --release 2>&1 | grep -E "^error" -A5)
./harness/target/release/simrun gen --profile $2 --seed ${4:-101} --count $3 --out out/t/probe.ndjson 2>&1 | tail -1
git -C /repo checkout -- .
cd spec && JAVA_TOOL_OPTIONS="-Xss1g -Dtlc2.tool.queue.IStateQueue=StateDeque" TRACE=/verif/out/t/probe.ndjson tlc -workers 1 -metadir /verif/out/tlatest/mdp -cleanup -noGenerateSpecTE -config Trace.cfg Trace.tla > /verif/out/t/probe.tlc 2>&1
python3 /verif/tools/tlcsum.py /verif/out/t/probe.tlc
