COMPONENT = {}
NOT_APPLICABLE = {
 "C11": "component check (TLC-enumerated vectors replayed on JointConfig/ProgressTracker) not built yet in this revision",
 "C12": "component check (Changer algebra vs ConfChange.tla) not built yet in this revision",
 "C14": "component check (RaftLog vs Log.tla sequence model) not built yet in this revision",
 "C18": "component check (Inflights vs Inflights.tla FIFO model) not built yet in this revision",
 "C19": "component check (MemStorage vs MemStorage.tla) not built yet in this revision",
}
LEVEL = {}
LEVEL_TEXT = {}
TECHNIQUE = {}
ENGINES = []
