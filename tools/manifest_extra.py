def comp(pid, ref, what, model, mc):
    return {
        "property_id": pid,
        "quick_cmd": "./check %s --tier quick" % pid,
        "thorough_cmd": "./check %s --tier thorough" % pid,
        "evidence_file": "evidence/%s.json" % pid,
        "replay_cmd_template": "./check %s --replay {path}" % pid,
        "engine": "tlc-vectors",
        "level_claimed": {
            "category": "model_checking",
            "text": ("%s TLC enumerates every operation sequence of spec/%s within small constants (spec/MC/%s*.cfg), checks the "
                     "property-level invariants and the refinement between the property's abstract model and the code-shaped "
                     "operators used by the system specification, and prints one vector per transition plus one full query table "
                     "per distinct state; harness/compreplay replays every vector on the real data structure and compares every "
                     "observable. Exhaustive inside the constants; nothing is claimed beyond them.") % (what, model, mc),
            "design_ref": "DESIGN.md " + ref,
        },
        "level_note": "Trusted: TLC, the vector replayer (harness/src/bin/compreplay), the documented preconditions used as enabling "
                      "conditions. Bounds are the CONSTANTS of the .cfg files and are listed in the evidence.",
        "technique": "explicit TLA+ component model, exhaustively enumerated by TLC; every generated transition replayed on the real code (model-based testing from the TLC state graph)",
    }

COMPONENT = {
 "C11": comp("C11", "§7 C11", "Quorum arithmetic is stated directly (largest index acknowledged by a majority; joint = min; vote tallies; group commit).", "Quorum.tla", "MC_Quorum"),
 "C12": comp("C12", "§7 C12", "The Changer algebra (simple / enter-joint / leave-joint / restore) with the invariants, round trip and quorum overlap of the statement as TLC invariants.", "ConfChange.tla", "MC_ConfChange"),
 "C14": comp("C14", "§7 C14", "RaftLog over storage + unstable + snapshot, refined to a plain sequence model (TLC invariants Contiguous, TermAgrees, SliceAgrees, Ordering, LimitedSliceOK, CommittedStable).", "Log.tla", "MC_Log"),
 "C18": comp("C18", "§7 C18", "Inflights as a bounded FIFO with deferred capacity changes; the ring buffer as implemented is a second description refined to it.", "Inflights.tla", "MC_Inflights"),
 "C19": comp("C19", "§7 C19", "MemStorage as snapshot point + compaction point + contiguous entries with the documented errors.", "MemStorage.tla", "MC_MemStorage"),
}
NOT_APPLICABLE = {}
MC_PIDS = ['C01','C02','C03','C04','C05','C06','C07','C08','C09','C13','C15','C16','C17','C20']
LEVEL = {p: 'model_checking' for p in MC_PIDS}
LEVEL_TEXT = {}
TECHNIQUE = {p: 'explicit TLA+ specification (RaftRs/Node/RawNodeOps) model-checked by TLC with the property predicates evaluated on every transition; TLC schedules replayed on the real code and recorded real executions trace-validated against the specification, predicates judged by TLC' for p in MC_PIDS}
ENGINES = [
 {"name": "tlc-mc", "path": "spec/MC/MC_core.tla", "serves_properties": MC_PIDS,
  "kind_free_text": "TLC model checking of spec/RaftRs.tla (bounds in spec/MC/MC_*.cfg) with schedule printing; maximal schedules replayed on the real RawNode cluster by harness/simrun replaymc and judged through spec/Trace.tla"},
 {"name": "tlc-vectors", "path": "spec/MC", "serves_properties": ["C11", "C12", "C14", "C18", "C19"],
  "kind_free_text": "TLC enumeration of component specifications printing JSON vectors; harness/compreplay replays them on the real structures"},
]
