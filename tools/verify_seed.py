#!/usr/bin/env python3
"""verify_seed.py <prop> <mutant-out-dir> [<name>]
Confirms a sub-agent's seeded change in a scratch worktree of /repo HEAD:
 (1) demo passes without the change, (2) the unedited suite passes with the change,
 (3) demo fails with the change.  On success stores /verif/seeded/<prop>-<name>/{patch.diff,demo.rs,NOTES.md,meta.json}."""
import json, os, re, shutil, subprocess, sys, time
prop, src = sys.argv[1], sys.argv[2].rstrip("/")
name = sys.argv[3] if len(sys.argv) > 3 else os.path.basename(src)
WT = "/tmp/mv/wt-%s-%s" % (prop, name)
TARGET = "/tmp/mv/target"
env = dict(os.environ, CARGO_TARGET_DIR=TARGET, CARGO_NET_OFFLINE="true")
def sh(cmd, cwd=WT, check=False):
    p = subprocess.run(cmd, shell=True, cwd=cwd, env=env, stdout=subprocess.PIPE, stderr=subprocess.STDOUT, text=True)
    return p.returncode, p.stdout
os.makedirs("/tmp/mv", exist_ok=True)
subprocess.run("git -C /repo worktree remove --force %s 2>/dev/null; git -C /repo worktree add -q --detach %s HEAD" % (WT, WT), shell=True, check=True)
try:
    notes = open(os.path.join(src, "NOTES.md")).read()
    in_harness = bool(re.search(r"harness/tests/|-p harness", notes))
    tname = "seed_demo_%s_%s" % (prop.lower(), name)
    dst = os.path.join(WT, "harness/tests" if in_harness else "tests", tname + ".rs")
    os.makedirs(os.path.dirname(dst), exist_ok=True)
    demo_cmd = "cargo test --offline %s --test %s 2>&1" % ("-p harness" if in_harness else "", tname)
    res = {"property": prop, "name": name, "demo_location": os.path.relpath(dst, WT), "repo_head": subprocess.check_output("git -C /repo rev-parse --short HEAD", shell=True, text=True).strip()}
    rc, out = sh("git apply --check %s" % os.path.join(src, "patch.diff"))
    res["patch_applies"] = rc == 0
    if rc != 0:
        rc3, out3 = sh("git apply -3 --check %s" % os.path.join(src, "patch.diff"))
        res["patch_applies_3way"] = rc3 == 0
    ok = res["patch_applies"]
    if ok:
        shutil.copy(os.path.join(src, "demo.rs"), dst)
        rc, out = sh(demo_cmd); res["demo_without_change"] = "pass" if rc == 0 else "FAIL"; res["demo_without_tail"] = out[-600:]
        os.remove(dst)
        sh("git apply %s" % os.path.join(src, "patch.diff"))
        rc, out = sh("cargo test --workspace --no-fail-fast --offline 2>&1")
        npass = sum(int(x) for x in re.findall(r"test result: ok\. (\d+) passed", out)); nfail = sum(int(x) for x in re.findall(r"(\d+) failed", out))
        res["suite_with_change"] = "pass" if rc == 0 and nfail == 0 else "FAIL"; res["suite_passed"] = npass; res["suite_failed"] = nfail
        shutil.copy(os.path.join(src, "demo.rs"), dst)
        rc, out = sh(demo_cmd); res["demo_with_change"] = "fail" if rc != 0 else "PASS(unexpected)"; res["demo_with_tail"] = out[-900:]
        os.remove(dst)
        sh("git checkout -- . ")
        ok = res["demo_without_change"] == "pass" and res["suite_with_change"] == "pass" and res["demo_with_change"] == "fail"
    res["confirmed"] = ok
    res["commands"] = ["(in a scratch worktree of /repo HEAD) " + demo_cmd, "git apply patch.diff; cargo test --workspace --no-fail-fast --offline", demo_cmd]
    out_dir = "/verif/seeded/%s-%s" % (prop, name)
    if ok:
        os.makedirs(out_dir, exist_ok=True)
        for f in ("patch.diff", "demo.rs", "NOTES.md"):
            shutil.copy(os.path.join(src, f), os.path.join(out_dir, f))
        m = re.search(r"(?is)(needs?|manifest)[^\n]*\n(.{0,600})", notes)
        res["needs"] = notes[:1500]
        json.dump(res, open(os.path.join(out_dir, "meta.json"), "w"), indent=1)
    print(json.dumps({k: v for k, v in res.items() if not k.endswith("tail") and k != "needs"}))
finally:
    subprocess.run("git -C /repo worktree remove --force %s" % WT, shell=True)
