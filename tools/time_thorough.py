#!/usr/bin/env python3
"""Measures every *_thorough.cfg of MC_core (TLC only, PrintReplay off): states, completion, wall time."""
import os, re, subprocess, sys, time, glob
ROOT = os.path.dirname(os.path.dirname(os.path.abspath(__file__)))
SPEC = os.path.join(ROOT, "spec")
lim = int(sys.argv[1]) if len(sys.argv) > 1 else 1500
names = sorted(os.path.basename(f)[:-4] for f in glob.glob(os.path.join(SPEC, "MC", "MC_*_thorough.cfg")))
core = [n for n in names if n.split("_")[1] in ("elect", "repl", "change", "ready", "single", "prevote", "transfer", "conf", "read", "snap")]
for n in core:
    cfg = open(os.path.join(SPEC, "MC", n + ".cfg")).read().replace("PrintReplay = TRUE", "PrintReplay = FALSE")
    tmp = os.path.join(SPEC, "MC", "TT_" + n + ".cfg")
    open(tmp, "w").write(cfg)
    t0 = time.time()
    env = dict(os.environ, JAVA_TOOL_OPTIONS="-Dtlc2.tool.impl.Tool.cdot=true -Xss256m")
    out = ""
    try:
        p = subprocess.run(["tlc", "-workers", "12", "-metadir", "/tmp/tt_" + n, "-cleanup", "-noGenerateSpecTE", "-config",
                            os.path.join("MC", "TT_" + n + ".cfg"), os.path.join("MC", "MC_core.tla")],
                           cwd=SPEC, stdout=subprocess.PIPE, stderr=subprocess.STDOUT, text=True, timeout=lim, env=env)
        out = p.stdout
        done = "No error has been found" in out
    except subprocess.TimeoutExpired as e:
        out = (e.stdout or b"").decode(errors="replace") if isinstance(e.stdout, bytes) else (e.stdout or "")
        done = False
    os.remove(tmp)
    m = re.findall(r"([\d,]+) distinct states found", out)
    print(n, "complete" if done else "incomplete", "distinct", m[-1] if m else "?", "wall %.0fs" % (time.time() - t0), flush=True)
    subprocess.run(["rm", "-rf", "/tmp/tt_" + n])
