#!/usr/bin/env python3
"""Channel C: directed schedules from the specification with one safety mechanism switched off.

For every entry of ABLATIONS, TLC checks spec/RaftRs.tla (wrapper MC_core) with Ablate = {name} inside the bounds of a
base .cfg (plus overrides) and stops at the first state in which a property predicate failed (`bad # {}`); the
schedule (choice history) of that shortest counterexample is stored under corpus/ablation/<name>.json together with
the cluster configuration needed to replay it on the real code.  On the unchanged tree the real code refuses to follow
the schedule at the ablated guard and the property holds; a tree in which that guard was weakened follows it."""
import json, os, re, subprocess, sys, time, hashlib
from concurrent.futures import ThreadPoolExecutor
ROOT = os.path.dirname(os.path.dirname(os.path.abspath(__file__)))
sys.path.insert(0, os.path.join(ROOT, "tools"))
import mc
SPEC = os.path.join(ROOT, "spec")
OUTD = os.path.join(ROOT, "corpus", "ablation")
WORK = os.path.join(ROOT, "out", "ablation")

def C(ids, voters, learners, **kw):
    return mc.cluster(ids, voters, learners, **kw)

# name -> (base cfg, overrides, cluster, properties it is expected to break)
ABLATIONS = {
 "CandidateIgnoresPreVoteResp": ("MC_prevote", {"MaxDrops": 0, "QuiescentTicks": "FALSE", "MaxTerm": 1, "MaxNet": 6, "MaxDepth": 50}, C([1,2,3],[1,2,3],[],pre_vote=True,check_quorum=True), ["C02", "C01", "C05"], ["C02.OneLeaderPerTerm"]),
 "TransferRespectsCastVote@C02": ("MC_transfer", {"TickNodes": "{1, 3}", "MaxTerm": 2, "MaxDrops": 0, "TransferTargets": "{2}", "QuiescentTicks": "FALSE"}, C([1,2,3],[1,2,3],[]), ["C02"], ["C02.OneLeaderPerTerm"]),
 "MustSyncOnVoteChange@change": ("MC_change", {"MaxTerm": 2, "MaxProposals": 1, "MaxDrops": 2, "MaxLog": 3, "TickNodes": "{1, 2, 3}", "QuiescentTicks": "FALSE"}, C([1,2,3],[1,2,3],[]), ["C07"], ["C07.MustSync"]),
 "PreVoteGrantNeverBumpsTerm": ("MC_prevote", {"MaxDrops": 1}, C([1,2,3],[1,2,3],[],pre_vote=True,check_quorum=True), ["C16"]),
 "MustSyncOnVoteChange": ("MC_elect", {}, C([1,2,3],[1,2,3],[]), ["C07"]),
 "HeartbeatCommitCap": ("MC_repl", {"MaxDrops": 1, "MaxLeaderTicks": 1}, C([1,2,3],[1,2,3],[]), ["C13", "C04", "C20"]),
 "TransferRespectsCastVote": ("MC_transfer", {"TickNodes": "{1, 3}", "MaxTerm": 2, "MaxDrops": 0, "TransferTargets": "{2}", "QuiescentTicks": "FALSE"}, C([1,2,3],[1,2,3],[]), ["C02", "C06"]),
 "TransferVoteUpToDate": ("MC_transfer", {"MaxProposals": 1, "MaxDrops": 1, "DropTypes": '{"App"}', "DropTo": "{2}", "TransferTargets": "{2}", "MaxLeaderTicks": 3, "MaxNet": 6, "MaxDepth": 70, "MaxLog": 3, "QuiescentTicks": "FALSE"}, C([1,2,3],[1,2,3],[]), ["C03"], ["C03.GrantOnlyUpToDate"]),
 "TimeoutNowNeedsWholeLog": ("MC_transfer", {"MaxProposals": 1, "MaxDrops": 0, "TransferTargets": "{2}", "EagerReady": "FALSE"}, C([1,2,3],[1,2,3],[]), ["C17"]),
 "TransferTimeoutAlwaysChecked": ("MC_transfer", {"CheckQuorumOn": "TRUE", "MaxDrops": 1, "TransferTargets": "{2}", "MaxLeaderTicks": 4}, C([1,2,3],[1,2,3],[],check_quorum=True), ["C17", "C10"]),
 "AbortTransferWhenNotVoter": ("MC_conf", {"MVoters": "{1, 2, 3}", "MaxConf": 1, "ConfMenuIds": "{3}", "MaxTransfers": 1, "TransferTargets": "{3}", "MaxDrops": 1}, C([1,2,3],[1,2,3],[]), ["C17"]),
 "JointUsesBothHalves": ("MC_conf", {"MVoters": "{1, 2}", "MaxConf": 1, "ConfMenuIds": "{5}", "MaxProposals": 1, "MaxDrops": 1, "DropTypes": '{"App"}', "DropTo": "{2}", "MaxLog": 5, "MaxNet": 5, "MaxDepth": 70, "LazyApply": "FALSE"}, C([1,2,3],[1,2],[]), ["C04", "C01"], ["C04.LeaderQuorumDurable"]),
 "HupChecksUnappliedConf": ("MC_conf", {"TickNodes": "{1, 2}", "MaxTerm": 2, "MaxConf": 1, "ConfMenuIds": "{1, 2}"}, C([1,2,3],[1,2],[]), ["C09"]),
 "ProposalConfFilter": ("MC_conf", {"MaxConf": 2, "ConfMenuIds": "{1, 3}"}, C([1,2,3],[1,2],[]), ["C09"]),
 "SnapshotCaughtUp": ("MC_snap", {"MaxDrops": 1, "DropTypes": '{"App"}', "DropTo": "{3}", "CompactNodes": "{1}", "MaxLeaderTicks": 1, "MaxProposals": 1, "MaxNet": 5, "MaxDepth": 60, "MaxLog": 3}, C([1,2,3],[1,2,3],[]), ["C13"], ["C13.NoneWhileSnapshot"]),
 "RestoreRejectsStale": ("MC_snap", {"MaxDrops": 1, "AllowDup": "TRUE", "MaxLeaderTicks": 2, "MaxProposals": 2, "MaxLog": 4}, C([1,2,3],[1,2,3],[]), ["C15", "C20"]),
 "ReadIndexRespChecksLog": ("MC_read", {"TickNodes": "{1}", "MaxTerm": 1, "MaxProposals": 1, "MaxLog": 3, "MaxDrops": 1}, C([1,2,3],[1,2,3],[]), ["C20", "C04"]),
 "ReadAcksAreVoterQuorum": ("MC_read", {"MIds": "{1, 2, 3}", "MVoters": "{1, 2}", "MLearners": "{3}", "TickNodes": "{1, 2}", "MaxTerm": 2, "MaxProposals": 1, "MaxLog": 3, "MaxDrops": 2}, C([1,2,3],[1,2],[3]), ["C08"]),
 "SelfMatchOnPersistOnly": ("MC_ready", {"MaxProposals": 1}, C([1,2],[1,2],[]), ["C04"]),
 "FollowerMessagesWaitForPersist": ("MC_ready", {"AllowDup": "TRUE", "AllowCrash": "TRUE", "MaxCrashes": 1}, C([1,2],[1,2],[]), ["C06"]),
 "HandOffBoundedByPersisted": ("MC_ready", {"MaxProposals": 1}, C([1,2],[1,2],[]), ["C07"]),
 "LeaderMessagesWaitForOwnHardState": ("MC_single", {}, C([1,2],[1],[2]), ["C06", "C05", "C01"]),
 "MaybePersistBelowFirstUpdate": ("MC_ready", {"TickNodes": "{1, 2}", "MaxTerm": 2, "MaxProposals": 1, "MaxDepth": 40}, C([1,2],[1,2],[]), ["C07", "C14"]),
 "CommitTermCheck": ("MC_change", {"MaxTerm": 3, "MaxProposals": 1, "MaxDrops": 2, "MaxLog": 3, "TickNodes": "{1, 2}"}, C([1,2,3],[1,2,3],[]), ["C04", "C01"]),
 "RestoreRejectsOlderThanRequest": ("MC_reqsnap", {}, C([1,2],[1,2],[]), ["C15", "C04"], ["C15.InstallKeepsAcked"]),
 "PersistMarkClearedByNumber": ("MC_async", {"MaxDepth": 24, "MaxLeaderTicks": 1, "MaxLog": 3}, C([1,2],[1],[2]), ["C06"], ["C06.PersistBeforeSend"]),
 "HupWaitsForPersistOnSelfQuorum": ("MC_conf", {"MIds": "{1, 2}", "MVoters": "{1, 2}", "TickNodes": "{1, 2}", "MaxTerm": 2, "MaxConf": 1, "ConfMenuIds": "{4}", "Fine": "TRUE", "EagerReady": "FALSE", "AllowAsync": "TRUE", "LazyApply": "FALSE", "MaxProposals": 1, "MaxLog": 4, "MaxDepth": 44}, C([1,2],[1,2],[]), ["C20"]),
}

def spec_hash():
    h = hashlib.sha256()
    for f in ["Base", "Log", "Inflights", "Quorum", "ConfChange", "Node", "RawNodeOps", "Props", "RaftRs"]:
        h.update(open(os.path.join(SPEC, f + ".tla"), "rb").read())
    h.update(open(os.path.join(SPEC, "MC", "MC_core.tla"), "rb").read())
    return h.hexdigest()[:16]

def run_one(name, workers=4, timeout=900):
    ent = ABLATIONS[name]
    base, over, cluster, props = ent[:4]
    target = ent[4] if len(ent) > 4 else None
    ablname = name.split("@")[0]
    cfg = open(os.path.join(SPEC, "MC", base + ".cfg")).read()
    cfg = re.sub(r"Ablate = \{\}", 'Ablate = {"%s"}' % ablname, cfg)
    if target:
        cfg = cfg.replace("TargetPreds = {}", "TargetPreds = {%s}" % ", ".join('"%s"' % t for t in target))
    cfg = cfg.replace("PrintReplay = TRUE", "PrintReplay = FALSE")
    for k, v in over.items():
        cfg, n = re.subn(r"^  %s = .*$" % k, "  %s = %s" % (k, v), cfg, flags=re.M)
        assert n == 1, (name, k)
    cfg = cfg.replace("INVARIANT Judge\n", "INVARIANT Judge\nINVARIANT NoBad\n")
    os.makedirs(WORK, exist_ok=True)
    cfgp = os.path.join(SPEC, "MC", "ABL_%s.cfg" % name)
    open(cfgp, "w").write(cfg)
    raw = os.path.join(WORK, name + ".out")
    env = dict(os.environ, JAVA_TOOL_OPTIONS="-Dtlc2.tool.impl.Tool.cdot=true -Xss256m")
    t0 = time.time()
    done = True
    with open(raw, "w") as f:
        try:
            subprocess.run(["tlc", "-workers", str(workers), "-metadir", os.path.join(WORK, "md_" + name), "-cleanup",
                            "-noGenerateSpecTE", "-config", os.path.join("MC", "ABL_%s.cfg" % name), os.path.join("MC", "MC_core.tla")],
                           cwd=SPEC, stdout=f, stderr=subprocess.STDOUT, timeout=timeout, env=env)
        except subprocess.TimeoutExpired:
            done = False
    viol = []
    states = 0
    with open(raw, errors="replace") as f:
        for line in f:
            if line.startswith('"{'):
                v = json.loads(json.loads(line))
                if v.get("k") == "MCVIOL":
                    viol.append(v)
            m = re.search(r"([\d,]+) distinct states found", line)
            if m:
                states = int(m.group(1).replace(",", ""))
    os.remove(raw)
    if not viol:
        # BFS did not reach a counterexample inside the time limit: random simulation of the same model
        raw2 = os.path.join(WORK, name + ".sim.out")
        with open(raw2, "w") as f:
            try:
                subprocess.run(["tlc", "-workers", str(workers), "-simulate", "num=100000000", "-depth", "90", "-metadir",
                                os.path.join(WORK, "mds_" + name), "-cleanup", "-noGenerateSpecTE", "-config",
                                os.path.join("MC", "ABL_%s.cfg" % name), os.path.join("MC", "MC_core.tla")],
                               cwd=SPEC, stdout=f, stderr=subprocess.STDOUT, timeout=420, env=env)
            except subprocess.TimeoutExpired:
                pass
        with open(raw2, errors="replace") as f:
            for line in f:
                if line.startswith('"{'):
                    v = json.loads(json.loads(line))
                    if v.get("k") == "MCVIOL":
                        viol.append(v)
        os.remove(raw2)
    os.remove(cfgp)
    res = {"ablation": name, "base": base, "overrides": over, "found": len(viol), "states": states,
           "wall_s": round(time.time() - t0, 1), "complete": done}
    if viol:
        viol.sort(key=lambda v: len(v["h"]))
        os.makedirs(OUTD, exist_ok=True)
        for k, v in enumerate(viol[:2]):
            json.dump({"ablation": ablname, "properties": props, "spec_predicates": v["bad"], "mc": True, "cfg": cluster,
                       "profile": "ablation:" + name, "seed": 0, "choices": v["h"], "spec_hash": spec_hash(),
                       "model": base, "overrides": over,
                       "generated_by": "tools/gen_ablation.py (TLC on RaftRs.tla with Ablate={%s}, target %s)" % (ablname, target)},
                      open(os.path.join(OUTD, "%s_%d.json" % (name, k)), "w"))
        res["predicates"] = viol[0]["bad"]
        res["length"] = len(viol[0]["h"])
    return res

if __name__ == "__main__":
    names = sys.argv[1:] or list(ABLATIONS)
    with ThreadPoolExecutor(max_workers=4) as ex:
        for r in ex.map(run_one, names):
            print(json.dumps(r), flush=True)
