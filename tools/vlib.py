"""Shared helpers for /verif/check: building the harness, running simrun and TLC,
parsing TLC output, known-findings handling and evidence writing."""
import json
import os
import re
import subprocess
import sys
import time

ROOT = os.path.dirname(os.path.dirname(os.path.abspath(__file__)))
SPEC = os.path.join(ROOT, "spec")
HARNESS = os.path.join(ROOT, "harness")
OUT = os.path.join(ROOT, "out")
EVID = os.path.join(ROOT, "evidence")
SIMRUN = os.path.join(HARNESS, "target", "release", "simrun")
COMPREPLAY = os.path.join(HARNESS, "target", "release", "compreplay")
JAVA_OPTS = "-Xss1g -Dtlc2.tool.queue.IStateQueue=StateDeque"
TLA_JAR = "/opt/veriftools/tla/tla2tools.jar"


class ToolError(Exception):
    pass


def log(*a):
    print(*a, flush=True)


def run(cmd, timeout=None, env=None, cwd=None, check=True):
    e = dict(os.environ)
    e.setdefault("CARGO_NET_OFFLINE", "true")
    if env:
        e.update(env)
    try:
        p = subprocess.run(cmd, stdout=subprocess.PIPE, stderr=subprocess.STDOUT, timeout=timeout,
                           env=e, cwd=cwd, text=True, errors="replace")
    except subprocess.TimeoutExpired as ex:
        raise ToolError("timeout after %ss: %s" % (timeout, " ".join(cmd)))
    if check and p.returncode != 0:
        raise ToolError("command failed (%d): %s\n%s" % (p.returncode, " ".join(cmd), p.stdout[-4000:]))
    return p


_built = False


def build_harness():
    """cargo build --release of the harness against /repo's current working tree (hooks on)."""
    global _built
    if _built:
        return 0.0
    t = time.time()
    lock = os.path.join(HARNESS, "Cargo.lock")
    if not os.path.exists(lock):
        import shutil
        shutil.copy("/repo/Cargo.lock", lock)
    p = run(["cargo", "build", "--release", "--offline"], cwd=HARNESS, timeout=1500, check=False)
    if p.returncode != 0:
        raise ToolError("harness build failed:\n" + p.stdout[-6000:])
    _built = True
    return time.time() - t


def simrun_gen(profile, seed, count, out, steps=None, choices_dir=None):
    cmd = [SIMRUN, "gen", "--profile", profile, "--seed", str(seed), "--count", str(count), "--out", out]
    if steps:
        cmd += ["--steps", str(steps)]
    if choices_dir:
        cmd += ["--choices", choices_dir]
    p = run(cmd, timeout=900)
    m = re.search(r"events=(\d+) panics=(\d+)", p.stdout)
    return (int(m.group(1)), int(m.group(2))) if m else (0, 0)


def simrun_resume(choices, upto_seq, profile, seed, count, steps, out, save_dir):
    cmd = [SIMRUN, "resume", "--choices", choices, "--upto-seq", str(upto_seq), "--profile", profile, "--seed", str(seed),
           "--count", str(count), "--steps", str(steps), "--out", out, "--save-choices", save_dir]
    p = run(cmd, timeout=900)
    m = re.search(r"events=(\d+)", p.stdout)
    return int(m.group(1)) if m else 0


def simrun_replay(choices, out):
    p = run([SIMRUN, "replay", "--choices", choices, "--out", out], timeout=600)
    m = re.search(r"replayed (\d+) events, (\d+) inapplicable", p.stdout)
    return (int(m.group(1)), int(m.group(2))) if m else (0, 0)


# TLC's pretty printer wraps tuples longer than 80 columns over several lines ("<< "VIOLATION",\n   {...},\n ...")
VIOL_RE = re.compile(r'<<\s*"VIOLATION",\s*\{([^}]*)\},\s*(\d+),\s*(\d+),\s*(\d+)\s*>>')
DRIFT_RE = re.compile(r'<<\s*"DRIFT",\s*"(\w+)",\s*\{([^}]*)\},\s*(\d+),\s*(\d+),\s*(\d+)\s*>>')


def tlc_trace(trace, metadir, module="Trace", cfg="Trace.cfg", timeout=1800, heap="6g"):
    """Runs the observation spec on an ndjson trace. Returns dict(violations, states, complete)."""
    env = {"TRACE": trace, "JAVA_TOOL_OPTIONS": JAVA_OPTS}
    cmd = ["java", "-Xmx" + heap, "-cp", TLA_JAR + ":" + cm_path(), "tlc2.TLC", "-workers", "1",
           "-metadir", metadir, "-cleanup", "-noGenerateSpecTE", "-config", cfg, module + ".tla"]
    cmd = ["tlc", "-workers", "1", "-metadir", metadir, "-cleanup", "-noGenerateSpecTE",
           "-config", cfg, module + ".tla"]
    p = run(cmd, timeout=timeout, env=env, cwd=SPEC, check=False)
    out = p.stdout
    conformance_failed = False
    if "Model checking completed. No error has been found." not in out and "TRACE-INCOMPLETE" not in out:
        # the conformance part (Node.tla/RawNodeOps.tla applied to a recorded state) can hit a partial operator when
        # the implementation produced a malformed state; the verdict does not need it: judge again with the
        # property predicates only
        env2 = dict(env, CONFORM="0")
        p2 = run(cmd, timeout=timeout, env=env2, cwd=SPEC, check=False)
        if "Model checking completed. No error has been found." in p2.stdout:
            out = p2.stdout
            conformance_failed = True
    viol = []
    for m in VIOL_RE.finditer(out):
        names = [x.strip().strip('"') for x in m.group(1).split(",") if x.strip()]
        viol.append({"names": names, "line": int(m.group(2)), "run": int(m.group(3)), "seq": int(m.group(4))})
    drift = []
    for m in DRIFT_RE.finditer(out):
        drift.append({"ev": m.group(1), "fields": [x.strip().strip('"') for x in m.group(2).split(",") if x.strip()],
                      "line": int(m.group(3)), "run": int(m.group(4)), "seq": int(m.group(5))})
    ms = re.search(r"(\d+) states generated, (\d+) distinct states found", out)
    states = int(ms.group(2)) if ms else 0
    incomplete = "TRACE-INCOMPLETE" in out
    ok = "Model checking completed. No error has been found." in out
    if not ok or incomplete:
        raise ToolError("TLC trace evaluation did not complete for %s:\n%s" % (trace, out[-5000:]))
    if conformance_failed:
        drift.append({"ev": "ConformanceEvaluationFailed", "fields": ["<spec operator undefined on the recorded state>"], "line": 0, "run": 0, "seq": 0})
    return {"violations": viol, "states": states, "drift": drift}


def cm_path():
    return ""


def read_known():
    known, fixed = [], []
    path = os.path.join(ROOT, "KNOWN_FINDINGS.txt")
    if os.path.exists(path):
        for line in open(path):
            line = line.strip()
            if line.startswith("known:"):
                d = dict(re.findall(r"(\w+)=(\S+)", line))
                d["text"] = line
                known.append(d)
            elif line.startswith("fixed:"):
                fixed.append(line)
    return known, fixed


def load_trace(path):
    evs = []
    with open(path) as f:
        for line in f:
            evs.append(json.loads(line))
    return evs


def write_evidence(pid, tier, seed, level, coverage, assumptions, wall, violations):
    os.makedirs(EVID, exist_ok=True)
    ev = {"property_id": pid, "tier": tier, "seed": int(seed), "level": level, "coverage": coverage,
          "assumptions": assumptions, "wall_s": round(wall, 2), "violations": int(violations)}
    with open(os.path.join(EVID, pid + ".json"), "w") as f:
        json.dump(ev, f, indent=1)
    return ev
