#!/usr/bin/env python3
"""try_seed.py <seeded-dir> [check ids...]  -- apply a seeded change to /repo, run the given checks
(default: the property the seed targets), revert /repo, print one JSON line with the outcomes."""
import json, os, re, subprocess, sys, time
d = os.path.abspath(sys.argv[1].rstrip("/"))
meta = json.load(open(os.path.join(d, "meta.json")))
checks = sys.argv[2:] or [meta["property"]]
tier = os.environ.get("VERIF_TIER", "quick")
def sh(c, cwd="/verif"):
    p = subprocess.run(c, shell=True, cwd=cwd, stdout=subprocess.PIPE, stderr=subprocess.STDOUT, text=True)
    return p.returncode, p.stdout
rc, out = sh("git -C /repo status --porcelain")
assert out.strip() == "", "/repo is dirty: " + out
rc, out = sh("git -C /repo apply %s" % os.path.join(d, "patch.diff"))
assert rc == 0, out
res = {"seed": os.path.basename(d), "results": {}}
try:
    for c in checks:
        t = time.time()
        rc, out = sh("./check %s --tier %s" % (c, tier))
        viol = sorted(set(re.findall(r"predicate=(\S+)", out)))
        mism = len(re.findall(r"mismatch:", out))
        res["results"][c] = {"rc": rc, "predicates": viol, "mismatch_lines": mism, "wall": round(time.time() - t, 1),
                             "tail": out[-300:] if rc not in (0, 1) else ""}
finally:
    sh("git -C /repo checkout -- .")
print(json.dumps(res))
