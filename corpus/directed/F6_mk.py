# generator of corpus/directed/F6_timeout_after_snapshot_before_apply.json: a follower persists a snapshot Ready
# (advance_append), its application has not yet reported the snapshot applied (advance_apply_to), the election
# timeout fires: Raft::hup scans [applied + 1, committed] although that range now lies below the log's first index
import json,sys
K={'election_tick': 3, 'heartbeat_tick': 1, 'max_size_per_msg': -1, 'max_inflight': 4, 'check_quorum': False, 'pre_vote': False, 'skip_bcast_commit': False, 'batch_append': False, 'priority': 0, 'max_uncommitted_size': -1, 'max_committed_size_per_ready': -1, 'max_apply_unpersisted_log_limit': 0, 'disable_proposal_forwarding': False}
cfg={'ids':[1,2,3],'voters':[1,2,3],'learners':[],'knobs':[K,K,K]}
ch=[]
def c(ev,**kw): ch.append(dict(ev=ev,**kw))
def rdy(n): c("Ready",n=n); c("AdvanceAppend",n=n)
def dl(f,t,ty,keep=False,idx=-1): c("DeliverMatch",**{"from":f,"to":t,"ty":ty,"idx":idx,"keep":keep})
def dr(f,t,ty): c("DropMatch",**{"from":f,"to":t,"ty":ty,"idx":-1})
for n in (1,2,3): c("SetTimeout",n=n,rt=3)
for _ in range(3): c("Tick",n=1)
rdy(1)
dl(1,2,"Vote"); dl(1,3,"Vote"); rdy(2); rdy(3)
dl(2,1,"VoteResp"); dl(3,1,"VoteResp"); rdy(1)
# node 2 hears nothing more; 1 and 3 commit the no-op and three entries
for _ in range(2): dr(1,2,"App")
dl(1,3,"App"); rdy(3); dl(3,1,"AppResp"); rdy(1)
for p in ("a","b","c"):
    c("Propose",n=1,p=p); rdy(1)
    for _ in range(2): dr(1,2,"App")
    dl(1,3,"App"); dl(1,3,"App"); rdy(3); dl(3,1,"AppResp"); dl(3,1,"AppResp"); rdy(1)
for _ in range(2): dr(1,2,"App")
dl(1,3,"App"); rdy(3); dl(3,1,"AppResp"); rdy(1)
c("Apply",n=1,k=4)
c("MakeSnap",n=1); c("Compact",n=1,k=4)
# node 2 is reachable again: heartbeat, probe, rejection, snapshot
c("Tick",n=1); rdy(1)
dr(1,3,"HB"); dl(1,2,"HB"); rdy(2); dl(2,1,"HBResp"); rdy(1)
dl(1,2,"App"); rdy(2); dl(2,1,"AppResp"); rdy(1)
dl(1,2,"Snap"); 
# the follower takes the Ready with the snapshot, writes it, advances - but the application reports the
# snapshot applied only later
c("Ready",n=2); c("AdvanceAppend",n=2)
for _ in range(3): c("Tick",n=2)
c("Ready",n=2); c("AdvanceAppend",n=2)
c("Apply",n=2,k=4)
json.dump({'profile':'directed-F6','seed':0,'cfg':cfg,'properties':['C20','C15'],'choices':ch,
           'note':'election timeout between advance_append of a snapshot Ready and advance_apply_to'},open(sys.argv[1],'w'))
