import json,sys
K={'election_tick': 3, 'heartbeat_tick': 1, 'max_size_per_msg': -1, 'max_inflight': 4, 'check_quorum': False, 'pre_vote': False, 'skip_bcast_commit': False, 'batch_append': False, 'priority': 0, 'max_uncommitted_size': -1, 'max_committed_size_per_ready': -1, 'max_apply_unpersisted_log_limit': 0, 'disable_proposal_forwarding': False}
cfg={'ids':[1,2,3],'voters':[1,2,3],'learners':[],'knobs':[K,K,K]}
ch=[]
def c(ev,**kw): ch.append(dict(ev=ev,**kw))
def rdy(n): c("Ready",n=n); c("AdvanceAppend",n=n)
def dl(f,t,ty,keep=False,idx=-1): c("DeliverMatch",**{"from":f,"to":t,"ty":ty,"idx":idx,"keep":keep})
def dr(f,t,ty): c("DropMatch",**{"from":f,"to":t,"ty":ty,"idx":-1})
c("SetTimeout",n=1,rt=3); c("SetTimeout",n=2,rt=5); c("SetTimeout",n=3,rt=5)
for _ in range(3): c("Tick",n=1)
rdy(1)
dl(1,2,"Vote"); dl(1,3,"Vote"); rdy(2); rdy(3)
dl(2,1,"VoteResp"); dl(3,1,"VoteResp"); rdy(1)
# noop at 1 replicated
dl(1,2,"App"); dl(1,3,"App"); rdy(2); rdy(3)
dl(2,1,"AppResp"); dl(3,1,"AppResp"); rdy(1); c("Apply",n=1,k=1)
for p in ("a","b"):
    c("Propose",n=1,p=p); rdy(1)
    dl(1,2,"App"); dl(1,3,"App"); dl(1,2,"App"); dl(1,3,"App"); rdy(2); rdy(3)
    dl(2,1,"AppResp"); dl(3,1,"AppResp"); dl(2,1,"AppResp"); dl(3,1,"AppResp"); rdy(1)
# everyone learns commit 3
for _ in range(2):
    dl(1,2,"App"); dl(1,3,"App")
rdy(2); rdy(3)
for _ in range(3):
    dl(2,1,"AppResp"); dl(3,1,"AppResp")
rdy(1)
c("Apply",n=1,k=3); c("Apply",n=2,k=3); c("Apply",n=3,k=3)
c("MakeSnap",n=1)
# follower 2 requests a snapshot (pending request = 3); leader answers with Snap(3), which the network duplicates
c("RequestSnap",n=2); rdy(2)
dl(2,1,"AppResp"); rdy(1)
dl(1,2,"Snap",keep=True); rdy(2)       # first copy installed (requested)
c("ReportSnap",n=1,j=2,ok=True)
dl(2,1,"AppResp"); rdy(1)
# node 3 is cut off from now on; entries 4,5 are committed by 1 and 2
c("Propose",n=1,p="c"); c("Propose",n=1,p="d"); rdy(1)
for _ in range(3): dr(1,3,"App")
c("Tick",n=1); rdy(1); dr(1,3,"HB"); dl(1,2,"HB"); rdy(2); dl(2,1,"HBResp"); rdy(1)
dl(1,2,"App"); rdy(2)
dl(2,1,"AppResp"); rdy(1)
c("Apply",n=1,k=5)
for _ in range(3): dr(1,3,"App"); dr(1,2,"App")
# follower 2 (commit index still 3) asks for a snapshot again; the duplicate of the old Snap(3) arrives
c("RequestSnap",n=2); rdy(2)
dr(2,1,"AppResp")
dl(1,2,"Snap"); rdy(2)
# leader 1 dies; 2 and 3 elect a leader that lacks 4 and 5
c("Crash",n=1)
c("SetTimeout",n=2,rt=3)
for _ in range(6): c("Tick",n=2)
rdy(2)
dl(2,3,"Vote"); rdy(3); dl(3,2,"VoteResp"); rdy(2)
dl(2,3,"App"); rdy(3); dl(3,2,"AppResp"); rdy(2)
c("Propose",n=2,p="x"); rdy(2); dl(2,3,"App"); dl(2,3,"App"); rdy(3); dl(3,2,"AppResp"); dl(3,2,"AppResp"); rdy(2)
c("Apply",n=2,k=5)
json.dump({'profile':'directed-F5','seed':0,'cfg':cfg,'properties':['C15','C04','C01'],'choices':ch},open(sys.argv[1],'w'))
