# generator of corpus/directed/D1_commit_by_vote.json: five voters, one entry per MsgAppend; a vote rejection carries
# (commit index, commit term) of an entry that the rejecting node holds in a different, newer-term version
import json,sys
K={'election_tick': 3, 'heartbeat_tick': 1, 'max_size_per_msg': 0, 'max_inflight': 4, 'check_quorum': False, 'pre_vote': False, 'skip_bcast_commit': False, 'batch_append': False, 'priority': 0, 'max_uncommitted_size': -1, 'max_committed_size_per_ready': -1, 'max_apply_unpersisted_log_limit': 0, 'disable_proposal_forwarding': False}
ids=[1,2,3,4,5]
cfg={'ids':ids,'voters':ids,'learners':[],'knobs':[K]*5}
ch=[]
def c(ev,**kw): ch.append(dict(ev=ev,**kw))
def rdy(n): c("Ready",n=n); c("AdvanceAppend",n=n)
def dl(f,t,ty,keep=False,idx=-1): c("DeliverMatch",**{"from":f,"to":t,"ty":ty,"idx":idx,"keep":keep})
def dr(f,t,ty): c("DropMatch",**{"from":f,"to":t,"ty":ty,"idx":-1})
def dropall(f,tos,tys,k=3):
    for _ in range(k):
        for t in tos:
            for ty in tys: dr(f,t,ty)
for n in ids: c("SetTimeout",n=n,rt=3)
c("SetTimeout",n=1,rt=3)
# A: node 1 leads term 1, (1,t1) committed and known everywhere
for _ in range(3): c("Tick",n=1)
rdy(1)
for t in (2,3,4,5): dl(1,t,"Vote"); rdy(t); dl(t,1,"VoteResp")
rdy(1)
for t in (2,3,4,5): dl(1,t,"App"); rdy(t); dl(t,1,"AppResp")
rdy(1)
for t in (2,3,4,5): dl(1,t,"App"); rdy(t); dl(t,1,"AppResp")
rdy(1); c("Apply",n=1,k=1)
# B: node 1 cut off, appends (2,t1) locally
c("Propose",n=1,p="a"); rdy(1)
dropall(1,(2,3,4,5),("App","HB"))
# C: node 3 elected at term 2 by 2,4,5; its no-op (2,t2) never leaves node 3
c("SetTimeout",n=3,rt=3)
for _ in range(3): c("Tick",n=3)
rdy(3)
for t in (2,4,5): dl(3,t,"Vote"); rdy(t); dl(t,3,"VoteResp")
rdy(3)
dropall(3,(2,4,5),("App","HB"))
# D: node 3 cut off; node 1 hears of term 2 (the old vote request), steps down, is elected at term 3
dl(3,1,"Vote"); rdy(1); dr(1,3,"VoteResp")
c("SetTimeout",n=1,rt=3)
for _ in range(3): c("Tick",n=1)
rdy(1)
dr(1,3,"Vote")
for t in (2,4,5): dl(1,t,"Vote"); rdy(t); dl(t,1,"VoteResp")
rdy(1)
# node 1 leads term 3 with (2,t1),(3,t3); 4 and 5 replicate everything, node 2 only (2,t1)
for rnd in range(6):
    for t in (4,5):
        dl(1,t,"App"); rdy(t); dl(t,1,"AppResp")
    rdy(1)
dr(1,3,"App"); dr(1,3,"App")
dl(1,2,"App"); rdy(2); dl(2,1,"AppResp"); rdy(1)       # rejected probe at index 2
dl(1,2,"App"); rdy(2); dl(2,1,"AppResp"); rdy(1)       # (2,t1) accepted
dr(1,2,"App"); dr(1,2,"App")                           # (3,t3) lost
c("Apply",n=1,k=3)
c("Tick",n=1); rdy(1)
dl(1,2,"HB"); rdy(2); dr(2,1,"HBResp")
for t in (3,4,5): dr(1,t,"HB")
# E: node 1 down, node 3 back; node 2 campaigns at term 4 with (commit 2, commit term 1)
c("Crash",n=1)
c("SetTimeout",n=2,rt=3)
for _ in range(3): c("Tick",n=2)
rdy(2)
dl(2,3,"Vote"); rdy(3)
dl(3,2,"VoteResp"); rdy(2)
json.dump({'profile':'directed-D1','seed':0,'cfg':cfg,'properties':['C04','C01','C05'],'choices':ch,
           'note':'commit-by-vote: the rejecting node holds (2,t2) where (2,t1) was committed; it must not take the commit index from the vote request'},open(sys.argv[1],'w'))
