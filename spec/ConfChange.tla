------------------------------ MODULE ConfChange ------------------------------
(***************************************************************************)
(* src/confchange/{changer,restore}.rs and tracker::Configuration.          *)
(* A tracked configuration is  t = [conf, prs]  with conf in the Base shape *)
(* [voters, outgoing, learners, learnersNext, autoLeave] and prs the set of *)
(* ids that have a Progress.  A change list is a sequence of [t, id] with   *)
(* t \in {"V","L","R"} (AddNode, AddLearnerNode, RemoveNode); id 0 is       *)
(* skipped.  Every operation returns [ok, t]; on error t is the input.      *)
(***************************************************************************)
EXTENDS Base

Err(t) == [ok |-> FALSE, t |-> t]
Ok(t) == [ok |-> TRUE, t |-> t]

CheckInvariants(t) ==
    LET c == t.conf IN
    /\ VotersOf(c) \subseteq t.prs
    /\ c.learners \subseteq t.prs
    /\ c.learners \cap c.outgoing = {} /\ c.learners \cap c.voters = {}
    /\ c.learnersNext \subseteq t.prs
    /\ c.learnersNext \subseteq c.outgoing
    /\ ~IsJoint(c) => (c.learnersNext = {} /\ ~c.autoLeave)

MakeVoter(t, id) ==
    IF id \notin t.prs
    THEN [conf |-> [t.conf EXCEPT !.voters = @ \cup {id}], prs |-> t.prs \cup {id}]
    ELSE [t EXCEPT !.conf = [@ EXCEPT !.voters = @ \cup {id}, !.learners = @ \ {id}, !.learnersNext = @ \ {id}]]
MakeLearner(t, id) ==
    IF id \notin t.prs
    THEN [conf |-> [t.conf EXCEPT !.learners = @ \cup {id}], prs |-> t.prs \cup {id}]
    ELSE IF id \in t.conf.learners THEN t
    ELSE LET c1 == [t.conf EXCEPT !.voters = @ \ {id}, !.learners = @ \ {id}, !.learnersNext = @ \ {id}]
         IN [t EXCEPT !.conf = IF id \in c1.outgoing THEN [c1 EXCEPT !.learnersNext = @ \cup {id}]
                                ELSE [c1 EXCEPT !.learners = @ \cup {id}]]
RemoveId(t, id) ==
    IF id \notin t.prs THEN t
    ELSE LET c1 == [t.conf EXCEPT !.voters = @ \ {id}, !.learners = @ \ {id}, !.learnersNext = @ \ {id}]
         IN [conf |-> c1, prs |-> IF id \in c1.outgoing THEN t.prs ELSE t.prs \ {id}]

RECURSIVE ApplyList(_, _)
ApplyList(t, ccs) ==
    IF ccs = <<>> THEN t
    ELSE LET cc == Head(ccs)
             t1 == IF cc.id = 0 THEN t
                   ELSE CASE cc.t = "V" -> MakeVoter(t, cc.id)
                          [] cc.t = "L" -> MakeLearner(t, cc.id)
                          [] OTHER -> RemoveId(t, cc.id)
         IN ApplyList(t1, Tail(ccs))
(* Changer::apply: [ok, t] ; error "removed all voters" *)
ApplyChanges(t, ccs) == LET r == ApplyList(t, ccs) IN IF r.conf.voters = {} THEN Err(t) ELSE Ok(r)

SymDiff(A, B) == (A \ B) \cup (B \ A)

Simple(t, ccs) ==
    IF IsJoint(t.conf) \/ ~CheckInvariants(t) THEN Err(t)
    ELSE LET r == ApplyChanges(t, ccs)
         IN IF ~r.ok THEN Err(t)
            ELSE IF Cardinality(SymDiff(r.t.conf.voters, t.conf.voters)) > 1 THEN Err(t)
            ELSE IF ~CheckInvariants(r.t) THEN Err(t) ELSE Ok(r.t)

EnterJoint(t, autoLeave, ccs) ==
    IF IsJoint(t.conf) \/ ~CheckInvariants(t) \/ t.conf.voters = {} THEN Err(t)
    ELSE LET t0 == [t EXCEPT !.conf = [@ EXCEPT !.outgoing = t.conf.voters]]
             r == ApplyChanges(t0, ccs)
         IN IF ~r.ok THEN Err(t)
            ELSE LET t1 == [r.t EXCEPT !.conf = [@ EXCEPT !.autoLeave = autoLeave]]
                 IN IF ~CheckInvariants(t1) THEN Err(t) ELSE Ok(t1)

LeaveJoint(t) ==
    IF ~IsJoint(t.conf) \/ ~CheckInvariants(t) THEN Err(t)
    ELSE LET c1 == [t.conf EXCEPT !.learners = @ \cup t.conf.learnersNext, !.learnersNext = {}]
             gone == {id \in c1.outgoing : id \notin c1.voters /\ id \notin c1.learners}
             t1 == [conf |-> [c1 EXCEPT !.outgoing = {}, !.autoLeave = FALSE], prs |-> t.prs \ gone]
         IN IF ~CheckInvariants(t1) THEN Err(t) ELSE Ok(t1)

(* the decoded ConfChangeV2: transition tr \in {"A","I","E"} and the change list *)
CCLeaveJoint(tr, ch) == tr = "A" /\ ch = <<>>
CCEnterJoint(tr, ch) == tr # "A" \/ Len(ch) > 1          \* then auto_leave = (tr # "E")
CCApply(t, tr, ch) ==
    IF CCLeaveJoint(tr, ch) THEN LeaveJoint(t)
    ELSE IF CCEnterJoint(tr, ch) THEN EnterJoint(t, tr # "E", ch)
    ELSE Simple(t, ch)

(* confchange::restore: rebuild a tracker from a ConfState, through the Changer *)
SetToSeq(S) == LET RECURSIVE F(_)
                   F(X) == IF X = {} THEN <<>> ELSE LET x == SetMin(X) IN <<x>> \o F(X \ {x})
               IN F(S)
RECURSIVE SimpleEach(_, _)
SimpleEach(t, ccs) ==           \* one `simple` call per element; [ok, t]
    IF ccs = <<>> THEN Ok(t)
    ELSE LET r == Simple(t, <<Head(ccs)>>) IN IF ~r.ok THEN Err(t) ELSE SimpleEach(r.t, Tail(ccs))
CCs(ty, S) == [k \in 1..Cardinality(S) |-> [t |-> ty, id |-> SetToSeq(S)[k]]]
EmptyTracker == [conf |-> EmptyConf, prs |-> {}]
Restore(cs) ==
    LET incoming == CCs("R", cs.outgoing) \o CCs("V", cs.voters) \o CCs("L", cs.learners) \o CCs("L", cs.learnersNext)
        outgoing == CCs("V", cs.outgoing)
    IN IF cs.outgoing = {} THEN SimpleEach(EmptyTracker, incoming)
       ELSE LET r == SimpleEach(EmptyTracker, outgoing)
            IN IF ~r.ok THEN Err(EmptyTracker) ELSE EnterJoint(r.t, cs.autoLeave, incoming)

(* deciding quorums *)
IsQuorum(Q, c) == /\ (c.voters # {} => Cardinality(Q \cap c.voters) * 2 > Cardinality(c.voters))
                  /\ (c.outgoing # {} => Cardinality(Q \cap c.outgoing) * 2 > Cardinality(c.outgoing))

=============================================================================
