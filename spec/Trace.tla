-------------------------------- MODULE Trace --------------------------------
(***************************************************************************)
(* Trace validation of executions recorded from the real raft-rs code.      *)
(* Reads an ndjson trace written by harness/simrun (one line per event;     *)
(* runs separated by Reset lines).  For every event it                      *)
(*  (1) computes the successor of the acting node with the specification    *)
(*      (Node.tla / RawNodeOps.tla) from the previous implementation state  *)
(*      and the logged arguments and compares it, field by field, with the  *)
(*      projected implementation state: a difference is printed as          *)
(*         <<"DRIFT", event, {fields}, line, run, seq>>                      *)
(*  (2) adopts the implementation state, updates the ghost history and      *)
(*      evaluates every property predicate of Props.tla on it:               *)
(*         <<"VIOLATION", {names}, line, run, seq>>                          *)
(* and continues, so one pass reports everything.                            *)
(***************************************************************************)
EXTENDS Props, RawNodeOps, Json, IOUtils

Rec == ndJsonDeserialize(IOEnv.TRACE)
CheckConformance == IF "CONFORM" \in DOMAIN IOEnv THEN IOEnv.CONFORM # "0" ELSE TRUE

VARIABLES l, run, rdi

tvars == <<pvars, l, run, rdi>>

-----------------------------------------------------------------------------
(* JSON view -> specification values *)
ConfOf(c) == [voters |-> Range(c.voters), outgoing |-> Range(c.outgoing),
              learners |-> Range(c.learners), learnersNext |-> Range(c.learnersNext),
              autoLeave |-> c.autoLeave]
SnapOf(s) == [i |-> s.i, t |-> s.t, conf |-> ConfOf(s.conf), data |-> s.data]
MsgOf(m) == [m EXCEPT !.snap = SnapOf(m.snap)]
MsgsOf(ms) == [k \in DOMAIN ms |-> MsgOf(ms[k])]
InsOf(x) == [start |-> x.start, count |-> x.count, cap |-> x.cap, icap |-> x.icap, buf |-> x.buf]
PrRecOf(p) == [matched |-> p.matched, next |-> p.next, state |-> p.state, paused |-> p.paused,
               pendSnap |-> p.pendSnap, pendReqSnap |-> p.pendReqSnap, active |-> p.active,
               ins |-> InsOf(p.ins), cg |-> p.cg, ci |-> p.ci]
PrOf(s) == [j \in {s[x].id : x \in DOMAIN s} |-> PrRecOf(s[CHOOSE x \in DOMAIN s : s[x].id = j])]
VotesOf(s) == [j \in {s[x].id : x \in DOMAIN s} |-> s[CHOOSE x \in DOMAIN s : s[x].id = j].v]
RoOf(r) == [queue |-> r.queue,
            pending |-> [x \in {r.pending[k].ctx : k \in DOMAIN r.pending} |->
                           LET p == r.pending[CHOOSE k \in DOMAIN r.pending : r.pending[k].ctx = x]
                           IN [from |-> p.from, index |-> p.index, acks |-> Range(p.acks)]]]
LogOf(g) == [offset |-> g.offset, uents |-> g.uents, usnap |-> SnapOf(g.usnap), committed |-> g.committed,
             persisted |-> g.persisted, applied |-> g.applied, maul |-> g.maul]
NodeOf(v) ==
    [id |-> v.id, term |-> v.term, vote |-> v.vote, role |-> v.role, lead |-> v.lead, ee |-> v.ee, he |-> v.he,
     rt |-> v.rt, lte |-> v.lte, pci |-> v.pci, prs |-> v.prs, promotable |-> v.promotable, prio |-> v.prio,
     votes |-> VotesOf(v.votes), conf |-> ConfOf(v.conf), pr |-> PrOf(v.pr), ro |-> RoOf(v.ro),
     readStates |-> v.readStates, msgs |-> MsgsOf(v.msgs), log |-> LogOf(v.log), rn |-> v.rn,
     usz |-> v.usz, lti |-> v.lti, checkQuorum |-> v.checkQuorum, preVote |-> v.preVote,
     skipBcastCommit |-> v.skipBcastCommit, batchAppend |-> v.batchAppend,
     maxCommittedSize |-> v.maxCommittedSize, groupCommit |-> v.groupCommit, pan |-> FALSE]
StorOf(s) == [hs |-> s.hs, conf |-> ConfOf(s.conf), ti |-> s.ti, tt |-> s.tt, ents |-> s.ents,
              snapi |-> s.snapi, snapt |-> s.snapt, snapconf |-> ConfOf(s.snapconf), snapdata |-> s.snapdata]
RdOf(r) == [r EXCEPT !.snap = SnapOf(r.snap), !.msgs = MsgsOf(r.msgs), !.pmsgs = MsgsOf(r.pmsgs)]
ArgOf(e) == IF e.ev = "Deliver" THEN [e.a EXCEPT !.m = MsgOf(e.a.m)] ELSE e.a
EvtOf(e) == [ev |-> e.ev, n |-> e.n, a |-> ArgOf(e), rk |-> e.rk, hr0 |-> e.hr0, hr |-> e.hr,
             gen |-> MsgsOf(e.gen), out |-> MsgsOf(e.out), rd |-> RdOf(e.rd)]

NoNode == [id |-> 0]
NoStor == [hs |-> EmptyHS, conf |-> EmptyConf, ti |-> 0, tt |-> 0, ents |-> <<>>, snapi |-> 0, snapt |-> 0,
           snapconf |-> EmptyConf, snapdata |-> ""]
NoApp == [applied |-> 0, sm |-> "", queue |-> <<>>, hasProbe |-> FALSE]
NoEvt == [ev |-> "None", n |-> 0, a |-> [x |-> 0], rk |-> "ok", hr0 |-> FALSE, hr |-> FALSE,
          gen |-> <<>>, out |-> <<>>, rd |-> [number |-> 0]]
NoPre == [up |-> FALSE, node |-> NoNode, stor |-> NoStor, handedTo |-> 0]
NoRdi == [number |-> 0, hasSS |-> FALSE, lead |-> 0, role |-> "F", hasHS |-> FALSE, hs |-> EmptyHS]

(* `l` is the last consumed line (0 at the start).  A linear trace is consumed in order; a merged replay tree
   (simrun replaymc --tree) carries for every line the list `kids` of the lines that follow it, and TLC walks the
   tree, so an event shared by many schedules is evaluated once. *)
Kids(k) ==
    IF k = 0 THEN {1}
    ELSE IF "kids" \in DOMAIN Rec[k] THEN Range(Rec[k].kids)
    ELSE IF k < Len(Rec) THEN {k + 1} ELSE {}

TraceInit ==
    /\ l = 0 /\ run = 0
    /\ node = [j \in Nodes |-> NoNode]
    /\ up = [j \in Nodes |-> FALSE]
    /\ stor = [j \in Nodes |-> NoStor]
    /\ dur = [j \in Nodes |-> NoStor]
    /\ app = [j \in Nodes |-> NoApp]
    /\ cfg = [j \in Nodes |-> [x |-> 0]]
    /\ pre = NoPre
    /\ evt = NoEvt
    /\ gh = GhostInit
    /\ rdi = [j \in Nodes |-> NoRdi]

-----------------------------------------------------------------------------
(* (1) conformance: successor of the acting node according to the specification *)

RECURSIVE ApplyQueued(_, _, _, _, _, _)
(* the application applies queued entries with index <= k: conf entries go through apply_conf_change *)
ApplyQueued(n, st, c, q, applied, k) ==
    IF q = <<>> \/ q[1].i > k THEN n
    ELSE LET e == q[1]
             n1 == IF e.i > applied /\ IsConfEntry(e) /\ e.p # "?"
                   THEN LET r == ApplyConfChange(n, st, c, e.tr, e.ch) IN IF r.ok THEN r.n ELSE n
                   ELSE n
         IN ApplyQueued(n1, st, c, Tail(q), Max(applied, e.i), k)
QueueLast(a) == IF a.queue = <<>> THEN 0 ELSE Last(a.queue).i

Expected(e, A) ==       \* A = converted args;  = [n, err] (+ rd / light where applicable)
    LET j == e.n
        N == node[j]
        S == stor[j]
        C == cfg[j]
        RT == IF e.up THEN e.s.rt ELSE N.rt
    IN CASE e.ev = "Tick" -> NE(Tick(N, S, C, RT), FALSE)
         [] e.ev = "Deliver" -> RawStep(N, S, C, A.m, RT)
         [] e.ev = "Propose" -> RawPropose(N, S, C, <<DataEntry(A.p, A.sz)>>, RT)
         [] e.ev = "ProposeBatch" -> RawPropose(N, S, C, A.ents, RT)
         [] e.ev = "ProposeConf" ->
                RawProposeConf(N, S, C, [EmptyEntry EXCEPT !.ty = IF A.v1 THEN "C1" ELSE "C2", !.tr = A.tr,
                                                            !.ch = A.ch, !.sz = A.sz], RT)
         [] e.ev = "ReadIndex" -> RawReadIndex(N, S, C, A.ctx, RT)
         [] e.ev = "Transfer" -> RawTransfer(N, S, C, A.to, RT)
         [] e.ev = "Campaign" -> RawCampaign(N, S, C, RT)
         [] e.ev = "Ping" -> NE(RawPing(N), FALSE)
         [] e.ev = "Bogus" -> RawStep(N, S, C, [Msg(A.ty, j) EXCEPT !.from = A.from, !.term = A.term], RT)
         [] e.ev = "Unreachable" -> NE(RawUnreachable(N, S, C, A.j, RT).n, FALSE)
         [] e.ev = "SetKnob" -> NE(RawSetKnob(N, S, C, A.name, A.j, A.val), FALSE)
         [] e.ev = "ReportSnap" -> NE(RawReportSnapshot(N, S, C, A.j, A.ok, RT).n, FALSE)
         [] e.ev = "RequestSnap" -> RawRequestSnapshot(N, S)
         [] e.ev = "Ready" -> LET r == Ready(N, S, C) IN [n |-> r.n, err |-> FALSE, rd |-> r.rd]
         [] e.ev = "AdvanceAsync" -> NE(AdvanceAppendAsync(N, rdi[j]), FALSE)
         [] e.ev = "AdvanceAppend" ->
                LET r == AdvanceAppend(N, S, C, rdi[j]) IN [n |-> r.n, err |-> FALSE, light |-> r.light]
         [] e.ev = "Advance" ->
                LET n1 == ApplyQueued(N, S, C, app[j].queue, app[j].applied, QueueLast(app[j]))
                    r == Advance(n1, S, C, rdi[j])
                IN [n |-> r.n, err |-> FALSE, light |-> r.light]
         [] e.ev = "Notify" -> NE(OnPersistReady(N, S, C, A.number), FALSE)
         [] e.ev = "Apply" ->
                NE(AdvanceApplyTo(ApplyQueued(N, S, C, app[j].queue, app[j].applied, A.k), S, C, A.k), FALSE)
         [] e.ev \in {"Restart", "Init"} -> NE(NewNode(j, StorOf(e.st), A.knobs, A.applied, RT), FALSE)
         [] OTHER -> NE(N, FALSE)

Conformable(e) ==
    /\ e.n \in Nodes
    /\ e.ev \in {"Tick", "Deliver", "Propose", "ProposeBatch", "ProposeConf", "ReadIndex", "Transfer", "Campaign",
                 "Ping", "Bogus", "Unreachable", "SetKnob", "ReportSnap", "RequestSnap", "Ready", "AdvanceAsync", "AdvanceAppend",
                 "Advance", "Notify", "Apply", "Restart", "Init"}
    /\ (e.ev \notin {"Restart", "Init"} => up[e.n])

NodeDiff(x, q) ==
    IF DOMAIN x # DOMAIN q THEN {"<shape>"}
    ELSE {f \in DOMAIN q \ {"msgs"} : x[f] # q[f]} \cup (IF SameBag(x.msgs, q.msgs) THEN {} ELSE {"msgs"})
RdDiff(x, q) ==
    {f \in {"number", "hasHS", "hs", "hasSS", "ents", "snap", "committed", "readStates", "mustSync"} : x[f] # q[f]}
    \cup (IF SameBag(x.msgs, q.msgs) THEN {} ELSE {"rd.msgs"})
    \cup (IF SameBag(x.pmsgs, q.pmsgs) THEN {} ELSE {"rd.pmsgs"})
LightDiff(x, q) ==
    {f \in {"committed", "commitIndex"} : x[f] # q[f]} \cup (IF SameBag(x.msgs, q.msgs) THEN {} ELSE {"light.msgs"})

Drift(e) ==
    IF ~Conformable(e) THEN {}
    ELSE LET ev == EvtOf(e)
             x == Expected(e, ev.a)
         IN IF e.rk = "panic" THEN (IF x.n.pan THEN {} ELSE {"<impl panicked, spec did not>"})
            ELSE IF ~e.up THEN {}
            ELSE IF x.n.pan THEN {"<spec predicts a panic>"}
            ELSE NodeDiff(x.n, NodeOf(e.s))
                 \cup (IF x.err # (e.rk = "err") THEN {"<result>"} ELSE {})
                 \cup (IF e.ev = "Ready" THEN RdDiff(x.rd, ev.rd) ELSE {})
                 \cup (IF e.ev \in {"Advance", "AdvanceAppend"} THEN LightDiff(x.light, ev.rd) ELSE {})

ReportDrift(e, c) ==
    IF ~CheckConformance THEN TRUE
    ELSE LET d == Drift(e) IN IF d = {} THEN TRUE ELSE PrintT(<<"DRIFT", e.ev, d, c, IF "run" \in DOMAIN e THEN e.run ELSE run, e.seq>>)

-----------------------------------------------------------------------------
(* (2) adoption of the implementation state, ghost update, property evaluation *)

ResetAll(e) ==
    /\ node' = [j \in Nodes |-> NoNode]
    /\ up' = [j \in Nodes |-> FALSE]
    /\ stor' = [j \in Nodes |-> NoStor]
    /\ dur' = [j \in Nodes |-> NoStor]
    /\ app' = [j \in Nodes |-> NoApp]
    /\ cfg' = [j \in Nodes |-> [x |-> 0]]
    /\ pre' = NoPre
    /\ evt' = NoEvt
    /\ gh' = GhostInit
    /\ rdi' = [j \in Nodes |-> NoRdi]
    /\ run' = e.run

NetEvent(e) ==
    /\ UNCHANGED <<node, up, stor, dur, app, cfg, run, rdi>>
    /\ pre' = NoPre
    /\ evt' = [NoEvt EXCEPT !.ev = e.ev, !.a = IF "a" \in DOMAIN e THEN e.a ELSE [x |-> 0]]
    /\ gh' = IF e.ev = "LeaseStart"
             THEN [gh EXCEPT !.lease = [on |-> TRUE, leader |-> e.a.leader, members |-> Range(e.a.members), term |-> e.a.term]]
             ELSE gh

NodeEvent(e, c) ==
    LET j == e.n IN
    /\ ReportDrift(e, c)
    /\ node' = [node EXCEPT ![j] = IF e.up THEN NodeOf(e.s) ELSE @]
    /\ up' = [up EXCEPT ![j] = e.up]
    /\ stor' = IF e.full THEN [stor EXCEPT ![j] = StorOf(e.st)] ELSE stor
    /\ dur' = IF e.full THEN [dur EXCEPT ![j] = StorOf(e.du)] ELSE dur
    /\ app' = IF e.full THEN [app EXCEPT ![j] = e.ap] ELSE app
    /\ cfg' = IF e.ev \in {"Init", "Restart"} THEN [cfg EXCEPT ![j] = e.a.knobs] ELSE cfg
    /\ pre' = [up |-> up[j], node |-> node[j], stor |-> stor[j], handedTo |-> gh.handedTo[j]]
    /\ evt' = EvtOf(e)
    /\ rdi' = IF e.ev = "Ready" /\ e.rk = "ok"
              THEN [rdi EXCEPT ![j] = [number |-> e.rd.number, hasSS |-> e.rd.hasSS, lead |-> node[j].lead,
                                       role |-> node[j].role, hasHS |-> e.rd.hasHS, hs |-> e.rd.hs]]
              ELSE rdi
    /\ gh' = GhostNext(gh, EvtOf(e), node'[j], stor'[j], dur'[j], app'[j], e.up)
    /\ UNCHANGED run

Report ==
    IF Violations = {} THEN TRUE
    ELSE PrintT(<<"VIOLATION", Violations, l, IF "run" \in DOMAIN Rec[l] THEN Rec[l].run ELSE run, Rec[l].seq>>)

TraceNext ==
    \E c \in Kids(l) :
        /\ l' = c
        /\ LET e == Rec[c]
           IN IF e.ev = "Reset" THEN ResetAll(e)
              ELSE IF e.n = 0 THEN NetEvent(e)
              ELSE NodeEvent(e, c)
        /\ Report'

TraceSpec == TraceInit /\ [][TraceNext]_tvars

(* acceptance: every line was consumed (one state per line plus the initial state) *)
TraceDone == TLCGet("stats").distinct = Len(Rec) + 1
                \/ PrintT(<<"TRACE-INCOMPLETE", TLCGet("stats").distinct, Len(Rec)>>)

=============================================================================
