-------------------------------- MODULE Trace --------------------------------
(***************************************************************************)
(* Observation of executions recorded from the real raft-rs code.           *)
(* Reads an ndjson trace written by harness/simrun (one line per event;     *)
(* runs separated by Reset lines), adopts the projected implementation      *)
(* state after every event, maintains the ghost history of Props.tla and    *)
(* evaluates every property predicate on every state of the execution.      *)
(* Each violated predicate is printed as                                     *)
(*    <<"VIOLATION", {names}, line, run, seq>>                               *)
(* and the walk continues, so one pass reports everything.                   *)
(***************************************************************************)
EXTENDS Props, Json, IOUtils

Rec == ndJsonDeserialize(IOEnv.TRACE)

VARIABLES l, run

tvars == <<pvars, l, run>>

ConfOf(c) == [voters |-> Range(c.voters), outgoing |-> Range(c.outgoing),
              learners |-> Range(c.learners), learnersNext |-> Range(c.learnersNext),
              autoLeave |-> c.autoLeave]
PrOf(s) == [j \in {s[x].id : x \in DOMAIN s} |-> s[CHOOSE x \in DOMAIN s : s[x].id = j]]
VotesOf(s) == [j \in {s[x].id : x \in DOMAIN s} |-> s[CHOOSE x \in DOMAIN s : s[x].id = j].v]
NodeOf(v) == [v EXCEPT !.conf = ConfOf(v.conf), !.pr = PrOf(v.pr), !.votes = VotesOf(v.votes)]

NoNode == [id |-> 0]
NoStor == [hs |-> EmptyHS, conf |-> EmptyConf, ti |-> 0, tt |-> 0, ents |-> <<>>, snapi |-> 0, snapt |-> 0]
NoApp == [applied |-> 0, sm |-> ""]
NoEvt == [ev |-> "None", n |-> 0, a |-> [x |-> 0], rk |-> "ok", hr0 |-> FALSE, hr |-> FALSE,
          gen |-> <<>>, out |-> <<>>, rd |-> [number |-> 0]]
NoPre == [up |-> FALSE, node |-> NoNode, stor |-> NoStor, handedTo |-> 0]

TraceInit ==
    /\ l = 1 /\ run = 0
    /\ node = [j \in Nodes |-> NoNode]
    /\ up = [j \in Nodes |-> FALSE]
    /\ stor = [j \in Nodes |-> NoStor]
    /\ dur = [j \in Nodes |-> NoStor]
    /\ app = [j \in Nodes |-> NoApp]
    /\ cfg = [j \in Nodes |-> [x |-> 0]]
    /\ pre = NoPre
    /\ evt = NoEvt
    /\ gh = GhostInit

EvtOf(e) == [ev |-> e.ev, n |-> e.n, a |-> e.a, rk |-> e.rk, hr0 |-> e.hr0, hr |-> e.hr,
             gen |-> e.gen, out |-> e.out, rd |-> e.rd]

ResetAll(e) ==
    /\ node' = [j \in Nodes |-> NoNode]
    /\ up' = [j \in Nodes |-> FALSE]
    /\ stor' = [j \in Nodes |-> NoStor]
    /\ dur' = [j \in Nodes |-> NoStor]
    /\ app' = [j \in Nodes |-> NoApp]
    /\ cfg' = [j \in Nodes |-> [x |-> 0]]
    /\ pre' = NoPre
    /\ evt' = NoEvt
    /\ gh' = GhostInit
    /\ run' = e.run

NetEvent(e) ==
    /\ UNCHANGED <<node, up, stor, dur, app, cfg, run>>
    /\ pre' = NoPre
    /\ evt' = [NoEvt EXCEPT !.ev = e.ev]
    /\ gh' = gh

NodeEvent(e) ==
    LET j == e.n IN
    /\ node' = [node EXCEPT ![j] = IF e.up THEN NodeOf(e.s) ELSE @]
    /\ up' = [up EXCEPT ![j] = e.up]
    /\ stor' = IF e.full THEN [stor EXCEPT ![j] = e.st] ELSE stor
    /\ dur' = IF e.full THEN [dur EXCEPT ![j] = e.du] ELSE dur
    /\ app' = IF e.full THEN [app EXCEPT ![j] = e.ap] ELSE app
    /\ cfg' = IF e.ev \in {"Init", "Restart"} THEN [cfg EXCEPT ![j] = e.a.knobs] ELSE cfg
    /\ pre' = [up |-> up[j], node |-> node[j], stor |-> stor[j], handedTo |-> gh.handedTo[j]]
    /\ evt' = EvtOf(e)
    /\ gh' = GhostNext(gh, EvtOf(e), node'[j], stor'[j], dur'[j], app'[j], e.up)
    /\ UNCHANGED run

Report ==
    IF Violations = {} THEN TRUE
    ELSE PrintT(<<"VIOLATION", Violations, l - 1, run, Rec[l - 1].seq>>)

TraceNext ==
    /\ l <= Len(Rec)
    /\ l' = l + 1
    /\ LET e == Rec[l]
       IN IF e.ev = "Reset" THEN ResetAll(e)
          ELSE IF e.n = 0 THEN NetEvent(e)
          ELSE NodeEvent(e)
    /\ Report'

TraceSpec == TraceInit /\ [][TraceNext]_tvars

(* acceptance: every line was consumed *)
TraceDone == TLCGet("stats").diameter = Len(Rec) + 1
                \/ PrintT(<<"TRACE-INCOMPLETE", TLCGet("stats").diameter, Len(Rec)>>)

=============================================================================
