SPECIFICATION Spec
CONSTANTS
  MaxDepth = 10
  Caps = {0, 1, 2, 3, 4}
  MaxIdx = 9
INVARIANT Refines
INVARIANT AddNeverPanics
INVARIANT ShrinkEffective
VIEW View
CHECK_DEADLOCK FALSE
