---------------------------- MODULE MC_MemStorage ----------------------------
(* All mutation sequences over a small index/term space; one vector per        *)
(* transition with the full query table computed by the model (C19).           *)
EXTENDS MemStorage, TLC, Json, FiniteSets
CONSTANTS MaxDepth, MaxIdx, Terms, Sizes
Maxes == {NoLim, 0, 4, 9}

VARIABLES m, depth, h
vars == <<m, depth, h>>

Confs == {<<1>>, <<1, 2>>}
EntQ(mm) == { [lo |-> q[1], hi |-> q[2], max |-> q[3], res |-> MEntries(mm, q[1], q[2], q[3])] :
                q \in {qq \in (1..MaxIdx) \X (2..(MaxIdx + 1)) \X Maxes : MEntriesPre(mm, qq[1], qq[2])} }
SnapQ(mm) == IF MSnapshotPre(mm) THEN { [req |-> r, res |-> MSnapshot(mm, r)] : r \in {0, mm.hs.commit + 1} } ELSE {}

Emit(op, m2, err) ==
    PrintT(ToJson([k |-> "memstorage", h |-> h, op |-> op, err |-> err,
                   first |-> MFirst(m2), last |-> MLast(m2),
                   term |-> [kk \in 1..(MaxIdx + 2) |-> MTerm(m2, kk - 1)],
                   ents |-> {}, snap |-> {}, hs |-> m2.hs, conf |-> m2.conf]))

(* evaluated once per distinct model state: the full query table *)
QueryDump ==
    PrintT(ToJson([k |-> "memstorage", h |-> h, op |-> [op |-> "none"], err |-> 0,
                   first |-> MFirst(m), last |-> MLast(m),
                   term |-> [kk \in 1..(MaxIdx + 2) |-> MTerm(m, kk - 1)],
                   ents |-> EntQ(m), snap |-> SnapQ(m), hs |-> m.hs, conf |-> m.conf]))

Init == m = MNew(<<1>>) /\ depth = 0 /\ h = <<>>

Step(op, m2, err) ==
    /\ depth < MaxDepth
    /\ m' = m2 /\ depth' = depth + 1 /\ h' = Append(h, op)
    /\ Emit(op, m2, err)

Append1 == \E s \in MFirst(m)..(MLast(m) + 1) : \E t \in Terms : \E sz \in Sizes :
             /\ s <= MaxIdx
             /\ LET es == <<[i |-> s, t |-> t, sz |-> sz]>>
                IN Step([op |-> "append", ents |-> es], MAppend(m, es), 0)
Append2 == \E s \in MFirst(m)..(MLast(m) + 1) : \E t \in Terms : \E sz \in Sizes :
             /\ s + 1 <= MaxIdx
             /\ LET es == <<[i |-> s, t |-> t, sz |-> sz], [i |-> s + 1, t |-> t, sz |-> 0]>>
                IN Step([op |-> "append", ents |-> es], MAppend(m, es), 0)
Compact == \E ci \in 0..MaxIdx : MCompactPre(m, ci) /\ Step([op |-> "compact", i |-> ci], MCompact(m, ci), 0)
ApplySnap == \E i \in 0..MaxIdx : \E t \in Terms : \E c \in Confs :
               Step([op |-> "apply_snapshot", i |-> i, t |-> t, conf |-> c], MApplySnapshot(m, i, t, c),
                    IF MApplySnapshotOK(m, i) THEN 0 ELSE OutOfDate)
CommitTo == \E k \in 1..MaxIdx : MCommitToPre(m, k) /\ Step([op |-> "commit_to", i |-> k], MCommitTo(m, k), 0)
SetHS == \E t \in Terms : \E c \in {m.si} \cup {k \in 1..MaxIdx : MHas(m, k)} :
           Step([op |-> "set_hardstate", term |-> t, vote |-> 1, commit |-> c],
                MSetHardState(m, [term |-> t, vote |-> 1, commit |-> c]), 0)
SetConf == \E c \in Confs : c # m.conf /\ Step([op |-> "set_conf_state", conf |-> c], MSetConf(m, c), 0)

Next == Append1 \/ Append2 \/ Compact \/ ApplySnap \/ CommitTo \/ SetHS \/ SetConf
Spec == Init /\ [][Next]_vars

(* model sanity: contiguity and the snapshot point below the first entry *)
Contiguous == \A k \in 1..Len(m.ents) : m.ents[k].i = m.ents[1].i + k - 1
SnapBelow == m.ents # <<>> => m.si < m.ents[1].i
View == m
=============================================================================
