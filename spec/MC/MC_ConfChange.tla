---------------------------- MODULE MC_ConfChange ----------------------------
(* All change lists from every reachable configuration (C12): invariants of     *)
(* the algebra checked by TLC, one vector per transition for the real Changer.  *)
EXTENDS ConfChange, Json
CONSTANTS Ids, MaxLen, MaxDepth

VARIABLES t, depth, h
vars == <<t, depth, h>>

Types == {"V", "L", "R"}
Singles == {[t |-> ty, id |-> id] : ty \in Types, id \in Ids}
SameId3 == {<<[t |-> a, id |-> id], [t |-> b, id |-> id], [t |-> c, id |-> id]>> : a \in Types, b \in Types, c \in Types, id \in Ids \ {0}}
Lists == UNION {[1..n -> Singles] : n \in 0..MaxLen} \cup SameId3

ConfJson(c) == [voters |-> c.voters, outgoing |-> c.outgoing, learners |-> c.learners,
                learnersNext |-> c.learnersNext, autoLeave |-> c.autoLeave]
Emit(op, r) ==
    PrintT(ToJson([k |-> "confchange", h |-> h, op |-> op, ok |-> r.ok,
                   conf |-> ConfJson(r.t.conf), prs |-> r.t.prs]))

Init == /\ t = Restore([EmptyConf EXCEPT !.voters = {1}]).t /\ depth = 0 /\ h = <<>>

Step(op, r) ==
    /\ depth < MaxDepth
    /\ t' = r.t /\ depth' = depth + 1
    /\ h' = IF r.ok THEN Append(h, op) ELSE h
    /\ Emit(op, r)

SimpleOp == \E ccs \in Lists : Step([op |-> "simple", ccs |-> ccs], Simple(t, ccs))
EnterOp == \E ccs \in Lists : \E al \in BOOLEAN :
             Step([op |-> "enter_joint", auto |-> al, ccs |-> ccs], EnterJoint(t, al, ccs))
LeaveOp == Step([op |-> "leave_joint"], LeaveJoint(t))
Next == SimpleOp \/ EnterOp \/ LeaveOp
Spec == Init /\ [][Next]_vars

(* ---- the statement of C12 ---- *)
Inv == LET c == t.conf IN
       /\ VotersOf(c) \cap c.learners = {}
       /\ c.learnersNext \subseteq c.outgoing
       /\ c.voters # {}
       /\ t.prs = MembersOf(c)
       /\ ~IsJoint(c) => (c.learnersNext = {} /\ ~c.autoLeave)
RoundTrip == LET r == Restore(t.conf) IN r.ok /\ r.t = t
Results == {Simple(t, ccs) : ccs \in Lists} \cup {EnterJoint(t, al, ccs) : al \in BOOLEAN, ccs \in Lists} \cup {LeaveJoint(t)}
SimpleDelta == \A ccs \in Lists : LET r == Simple(t, ccs) IN r.ok => Cardinality(SymDiff(r.t.conf.voters, t.conf.voters)) <= 1
ErrorAtomic == \A r \in Results : ~r.ok => r.t = t
QuorumOverlap ==
    \A r \in Results : r.ok =>
        \A Q1 \in SUBSET Ids : \A Q2 \in SUBSET Ids :
            (IsQuorum(Q1, t.conf) /\ IsQuorum(Q2, r.t.conf)) => Q1 \cap Q2 # {}
View == t
=============================================================================
