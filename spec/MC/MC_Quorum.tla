------------------------------ MODULE MC_Quorum ------------------------------
(* Enumerates voter sets, ack vectors, vote maps and group assignments (C11);   *)
(* checks statement-shaped vs code-shaped operators and prints vectors.         *)
EXTENDS Quorum, TLC, Json
CONSTANTS Ids, MaxAck, Mode, LargeSizes
VARIABLE done
Acks == [Ids -> 0..MaxAck]
PartialAcks == UNION {[S -> 0..MaxAck] : S \in SUBSET Ids}

EmitCommit(u) ==
    \A inc \in SUBSET Ids : \A out \in SUBSET Ids : \A S \in SUBSET Ids : \A ack \in [S -> 0..MaxAck] :
        /\ Assert(MajCommitted(inc, ack) = MajCommittedSorted(inc, ack), <<"sorted/statement differ", inc, ack>>)
        /\ PrintT(ToJson([k |-> "commit", inc |-> inc, out |-> out, ids |-> S, ack |-> [v \in S |-> ack[v]],
                          exp |-> JointCommitted(inc, out, ack)]))
EmitVote(u) ==
    \A inc \in SUBSET Ids : \A out \in SUBSET Ids : \A S \in SUBSET Ids : \A votes \in [S -> BOOLEAN] :
        /\ Assert(JointVote(inc, out, votes) = VoteStatement(inc, out, votes), <<"vote statement differs", inc, out, votes>>)
        /\ PrintT(ToJson([k |-> "vote", inc |-> inc, out |-> out, ids |-> S,
                          yes |-> {v \in S : votes[v]}, exp |-> JointVote(inc, out, votes)]))
EmitGroup(u) ==
    \A inc \in (SUBSET Ids) \ {{}} : \A ack \in Acks : \A grp \in [Ids -> 0..2] :
        LET plain == MajCommitted(inc, ack)
            strict == AllGrouped(inc, grp) /\ Cardinality(Groups(inc, grp)) >= 2
        IN PrintT(ToJson([k |-> "group", inc |-> inc, ack |-> ack, grp |-> grp, plain |-> plain,
                          strict |-> strict, exp |-> IF strict THEN GCStatement(inc, ack, grp) ELSE plain]))
EmitGJoint(u) ==
    \A inc \in (SUBSET Ids) \ {{}} : \A out \in SUBSET Ids : \A ack \in Acks : \A grp \in [Ids -> 0..2] :
        LET halves == {H \in {inc, out} : H # {}}
            plain == JointCommitted(inc, out, ack)
            strictH(H) == AllGrouped(H, grp) /\ Cardinality(Groups(H, grp)) >= 2
            strict == \A H \in halves : strictH(H)
            gcs == {GCStatement(H, ack, grp) : H \in halves}
        IN PrintT(ToJson([k |-> "gjoint", inc |-> inc, out |-> out, ack |-> ack, grp |-> grp, plain |-> plain,
                          strict |-> strict, exp |-> IF strict THEN CHOOSE x \in gcs : \A y \in gcs : x <= y ELSE plain]))
EmitLarge(u) ==
    \A n \in LargeSizes : \A ack \in [1..n -> 0..MaxAck] :
        /\ Assert(MajCommitted(1..n, ack) = MajCommittedSorted(1..n, ack), <<"sorted/statement differ", n, ack>>)
        /\ PrintT(ToJson([k |-> "commit", inc |-> 1..n, out |-> {}, ids |-> 1..n, ack |-> ack,
                          exp |-> JointCommitted(1..n, {}, ack)]))
        /\ PrintT(ToJson([k |-> "commit", inc |-> {1}, out |-> 1..n, ids |-> 1..n, ack |-> ack,
                          exp |-> JointCommitted({1}, 1..n, ack)]))
Init == /\ done = TRUE
        /\ CASE Mode = "commit" -> EmitCommit(done) [] Mode = "vote" -> EmitVote(done) [] Mode = "group" -> EmitGroup(done)
                [] Mode = "gjoint" -> EmitGJoint(done) [] Mode = "large" -> EmitLarge(done)
Next == UNCHANGED done
=============================================================================
