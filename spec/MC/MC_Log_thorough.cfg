SPECIFICATION Spec
CONSTANTS
  Ablate = {}
  MaxDepth = 5
  MaxIdx = 3
  Terms = {1, 2}
INVARIANT Contiguous
INVARIANT TermAgrees
INVARIANT SliceAgrees
INVARIANT Ordering
INVARIANT PersistedInStorage
INVARIANT LimitedSliceOK
INVARIANT QueryDump
PROPERTY CommittedStable
VIEW View
CHECK_DEADLOCK FALSE
