SPECIFICATION Spec
CONSTANTS
  Ablate = {}
  Ids = {1, 2, 3}
  MaxLen = 2
  MaxDepth = 6
INVARIANT Inv
INVARIANT RoundTrip
INVARIANT SimpleDelta
INVARIANT ErrorAtomic
INVARIANT QuorumOverlap
VIEW View
CHECK_DEADLOCK FALSE
