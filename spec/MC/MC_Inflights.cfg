SPECIFICATION Spec
CONSTANTS
  MaxDepth = 7
  Caps = {0, 1, 2, 3}
  MaxIdx = 6
INVARIANT Refines
INVARIANT AddNeverPanics
INVARIANT ShrinkEffective
VIEW View
CHECK_DEADLOCK FALSE
