SPECIFICATION Spec
CONSTANTS
  MaxDepth = 8
  Caps = {0, 1, 2, 3, 4}
  MaxIdx = 6
INVARIANT Refines
INVARIANT AddNeverPanics
INVARIANT ShrinkEffective
VIEW View
CHECK_DEADLOCK FALSE
