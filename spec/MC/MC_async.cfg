SPECIFICATION Spec
CONSTANTS
  Ablate = {}
  Ids <- MCIds
  InitVoters <- MVoters
  InitLearners <- MLearners
  Knobs <- MCKnobs
  Timeouts <- MCTimeouts
  MIds = {1, 2}
  MVoters = {1}
  MLearners = {2}
  PreVoteOn = FALSE
  CheckQuorumOn = FALSE
  MaxTerm = 2
  MaxLog = 2
  MaxNet = 4
  MaxCrashes = 1
  MaxProposals = 1
  MaxDepth = 20
  AllowDrop = FALSE
  AllowDup = FALSE
  AllowAsync = TRUE
  AllowCrash = TRUE
  PrintReplay = TRUE
  Fine = TRUE
  EagerReady = FALSE
  QuiescentTicks = TRUE
  MaxLeaderTicks = 0
  TickNodes = {1}
  MaxDrops = 1
  MaxTransfers = 0
  TransferTargets = {}
  MaxConf = 0
  ConfMenuIds = {}
  MaxReads = 0
  LazyApply = FALSE
  AllowCompact = FALSE
  ProposeAnywhere = FALSE
  TargetPreds = {}
  DropTypes = {}
  DropTo = {}
  DupTypes = {}
  CompactNodes = {}
  MaxDups = 1
  MaxReqSnaps = 0
  ReqSnapNodes = {}
  MaxUnreach = 0
  PartialPersist = TRUE
CONSTRAINT Bound
INVARIANT Judge
INVARIANT Replay
VIEW View
CHECK_DEADLOCK FALSE
