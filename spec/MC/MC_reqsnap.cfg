SPECIFICATION Spec
CONSTANTS
  Ablate = {}
  Ids <- MCIds
  InitVoters <- MVoters
  InitLearners <- MLearners
  Knobs <- MCKnobs
  Timeouts <- MCTimeouts
  MIds = {1, 2}
  MVoters = {1, 2}
  MLearners = {}
  PreVoteOn = FALSE
  CheckQuorumOn = FALSE
  MaxTerm = 1
  MaxLog = 3
  MaxNet = 3
  MaxCrashes = 0
  MaxProposals = 1
  MaxDepth = 60
  AllowDrop = TRUE
  AllowDup = TRUE
  AllowAsync = FALSE
  AllowCrash = FALSE
  PrintReplay = TRUE
  Fine = FALSE
  EagerReady = TRUE
  QuiescentTicks = TRUE
  MaxLeaderTicks = 1
  TickNodes = {1}
  MaxDrops = 0
  MaxTransfers = 0
  TransferTargets = {}
  MaxConf = 0
  ConfMenuIds = {}
  MaxReads = 0
  LazyApply = FALSE
  AllowCompact = TRUE
  ProposeAnywhere = FALSE
  TargetPreds = {}
  DropTypes = {}
  DropTo = {}
  DupTypes = {"Snap"}
  CompactNodes = {1}
  MaxDups = 1
  MaxReqSnaps = 2
  ReqSnapNodes = {2}
  MaxUnreach = 0
  PartialPersist = FALSE
CONSTRAINT Bound
INVARIANT Judge
INVARIANT Replay
VIEW View
CHECK_DEADLOCK FALSE
