SPECIFICATION Spec
CONSTANTS
  Ablate = {}
  Ids = {0, 1, 2, 3}
  MaxLen = 3
  MaxDepth = 8
INVARIANT Inv
INVARIANT RoundTrip
INVARIANT SimpleDelta
INVARIANT ErrorAtomic
INVARIANT QuorumOverlap
VIEW View
CHECK_DEADLOCK FALSE
