SPECIFICATION Spec
CONSTANTS
  Ablate = {}
  Ids <- MCIds
  InitVoters <- MVoters
  InitLearners <- MLearners
  Knobs <- MCKnobs
  Timeouts <- MCTimeouts
  MIds = {1, 2, 3}
  MVoters = {1, 2, 3}
  MLearners = {}
  PreVoteOn = FALSE
  CheckQuorumOn = FALSE
  MaxTerm = 2
  MaxLog = 2
  MaxNet = 4
  MaxCrashes = 0
  MaxProposals = 1
  MaxDepth = 60
  AllowDrop = TRUE
  AllowDup = FALSE
  AllowAsync = FALSE
  AllowCrash = FALSE
  PrintReplay = TRUE
  Fine = FALSE
  EagerReady = TRUE
  QuiescentTicks = TRUE
  MaxLeaderTicks = 0
  TickNodes = {1, 2}
  MaxDrops = 1
  MaxTransfers = 0
  TransferTargets = {}
  MaxConf = 0
  ConfMenuIds = {}
  MaxReads = 0
  LazyApply = FALSE
  AllowCompact = FALSE
  ProposeAnywhere = FALSE
  TargetPreds = {}
  DropTypes = {}
  DropTo = {}
  DupTypes = {}
  CompactNodes = {}
  MaxDups = 1
  MaxReqSnaps = 0
  ReqSnapNodes = {}
  MaxUnreach = 0
  PartialPersist = FALSE
CONSTRAINT Bound
INVARIANT Judge
INVARIANT Replay
VIEW View
CHECK_DEADLOCK FALSE
