------------------------------- MODULE MC_core -------------------------------
(* Model-checking wrapper for RaftRs.tla: constants, bounds, Next, VIEW,        *)
(* schedule printing for replay on the real code.                               *)
EXTENDS RaftRs, Json

CONSTANTS MIds, MVoters, MLearners, PreVoteOn, CheckQuorumOn,
          MaxTerm, MaxLog, MaxNet, MaxCrashes, MaxProposals, MaxDepth,
          AllowDrop, AllowDup, AllowAsync, AllowCrash, PrintReplay, Fine,
          EagerReady, QuiescentTicks, MaxLeaderTicks, TickNodes, MaxDrops,
          MaxTransfers, TransferTargets, MaxConf, ConfMenuIds, MaxReads, LazyApply, AllowCompact, ProposeAnywhere,
          MaxDups, TargetPreds, DropTypes, DropTo, DupTypes, CompactNodes,
          MaxReqSnaps, ReqSnapNodes, MaxUnreach, PartialPersist

K0 == [election_tick |-> 3, heartbeat_tick |-> 1, max_size_per_msg |-> NoLimit, max_inflight |-> 2,
       check_quorum |-> CheckQuorumOn, pre_vote |-> PreVoteOn, skip_bcast_commit |-> FALSE, batch_append |-> FALSE,
       priority |-> 0, max_uncommitted_size |-> NoLimit, max_committed_size_per_ready |-> NoLimit,
       max_apply_unpersisted_log_limit |-> 0, disable_proposal_forwarding |-> FALSE, lease_read |-> FALSE]
MCIds == MIds
MCKnobs == [i \in MCIds |-> K0]
MCTimeouts == [i \in MCIds |-> {2 + i}]

Count(ev) == Cardinality({k \in DOMAIN h : h[k].ev = ev})
Payload(k) == CASE k = 0 -> "va" [] k = 1 -> "vb" [] k = 2 -> "vc" [] OTHER -> "vd"

(* menu of membership changes (decoded ConfChangeV2) *)
CC(tr, ch) == [tr |-> tr, ch |-> ch]
Ch(t, id) == [t |-> t, id |-> id]
ConfMenu == <<CC("A", <<Ch("V", 3)>>), CC("A", <<Ch("R", 2)>>), CC("A", <<Ch("L", 3)>>), CC("A", <<Ch("R", 1)>>),
              CC("E", <<Ch("V", 3), Ch("R", 2)>>), CC("I", <<Ch("L", 2), Ch("V", 3)>>), CC("A", <<>>),
              CC("A", <<Ch("L", 2)>>), CC("A", <<Ch("V", 2)>>)>>
RECURSIVE ChSize(_)
ChSize(ch) == IF ch = <<>> THEN 0 ELSE 2 + (IF ch[1].t = "V" THEN 0 ELSE 2) + 2 + ChSize(Tail(ch))
CCSize(cc) == (IF cc.tr = "A" THEN 0 ELSE 2) + ChSize(cc.ch)
ReadCtx(k) == CASE k = 0 -> "r01" [] k = 1 -> "r02" [] OTHER -> "r03"

LastQueued(i) == IF app[i].queue = <<>> THEN app[i].applied ELSE Last(app[i].queue).i
ApplyAllOrSkip(i) ==
    IF Idle(i) /\ LastQueued(i) >= app[i].applied /\ ~(LastQueued(i) = app[i].applied /\ node[i].log.applied >= LastQueued(i))
    THEN ApplyA(i, LastQueued(i)) ELSE UNCHANGED vars
(* synchronous processing of one Ready as the lib.rs example does: ready, persist, advance, apply *)
SyncReadyA(i) == IF LazyApply THEN ReadyA(i) \cdot AdvanceAppendA(i) ELSE ReadyA(i) \cdot AdvanceAppendA(i) \cdot ApplyAllOrSkip(i)
(* ticks until the election timeout fires (followers/candidates), one tick for a leader *)
TicksLeft(i) == IF node[i].role = "L" THEN 1 ELSE Max(1, node[i].rt - node[i].ee)
TickN(i) ==
    CASE TicksLeft(i) = 1 -> TickA(i)
      [] TicksLeft(i) = 2 -> TickA(i) \cdot TickA(i)
      [] TicksLeft(i) = 3 -> TickA(i) \cdot TickA(i) \cdot TickA(i)
      [] TicksLeft(i) = 4 -> TickA(i) \cdot TickA(i) \cdot TickA(i) \cdot TickA(i)
      [] OTHER -> TickA(i) \cdot TickA(i) \cdot TickA(i) \cdot TickA(i) \cdot TickA(i)

SomeReady == \E j \in Ids : up[j] /\ (app[j].outstanding # 0 \/ HasReady(node[j], stor[j]))
Quiescent == net = EmptyBag /\ ~SomeReady
LeaderTicks == Cardinality({k \in DOMAIN h : h[k].ev = "Tick" /\ "ld" \in DOMAIN h[k]})
TickOK(i) == /\ Idle(i) /\ ~HasReady(node[i], stor[i])
             /\ (QuiescentTicks => Quiescent)
             /\ (node[i].role = "L" => LeaderTicks < MaxLeaderTicks)
             /\ (node[i].role # "L" => node[i].term < MaxTerm /\ node[i].promotable /\ i \in TickNodes)
Busy(i) == EagerReady /\ SomeReady /\ ~(up[i] /\ (app[i].outstanding # 0 \/ HasReady(node[i], stor[i])))

Next ==
    \/ \E i \in Ids : \/ (TickOK(i) /\ ~(EagerReady /\ SomeReady) /\ TickN(i))
                      \/ (~Fine /\ SyncReadyA(i))
                      \/ (Fine /\ ReadyA(i))
                      \/ (Fine /\ AdvanceAppendA(i))
                      \/ (Fine /\ AllowAsync /\ AdvanceAsyncA(i))
                      \/ (Fine /\ AllowAsync
                            /\ \E u \in (IF PartialPersist THEN {app[i].pending[x].number : x \in DOMAIN app[i].pending}
                                          ELSE {app[i].lastTaken}) : FsyncA(i, u))
                      \/ (Fine /\ AllowAsync
                            /\ \E k \in (IF PartialPersist THEN (app[i].lastNotified + 1)..app[i].lastDurable
                                          ELSE {app[i].lastDurable}) : NotifyA(i, k))
                      \/ (Fine /\ ApplyA(i, LastQueued(i)))
                      \/ (Count("Propose") < MaxProposals /\ (ProposeAnywhere \/ node[i].role = "L") /\ ProposeA(i, Payload(Count("Propose")), 2))
                      \/ (LazyApply /\ ~Fine /\ ~(EagerReady /\ SomeReady) /\ ApplyA(i, LastQueued(i)))
                      \/ (Count("Transfer") < MaxTransfers /\ ~(EagerReady /\ SomeReady) /\ node[i].role = "L"
                            /\ \E to \in TransferTargets : TransferA(i, to))
                      \/ (Count("ProposeConf") < MaxConf /\ ~(EagerReady /\ SomeReady) /\ node[i].role = "L"
                            /\ \E k \in ConfMenuIds : ProposeConfA(i, ConfMenu[k].tr, ConfMenu[k].ch, CCSize(ConfMenu[k])))
                      \/ (Count("ReadIndex") < MaxReads /\ ~(EagerReady /\ SomeReady) /\ ReadIndexA(i, ReadCtx(Count("ReadIndex"))))
                      \/ (AllowCompact /\ (CompactNodes = {} \/ i \in CompactNodes) /\ ~(EagerReady /\ SomeReady) /\ MakeSnapA(i))
                      \/ (AllowCompact /\ (CompactNodes = {} \/ i \in CompactNodes) /\ ~(EagerReady /\ SomeReady) /\ CompactA(i, SnapPointOf(i)))
                      \/ (\E rp \in app[i].reports : ReportSnapA(i, rp[1], rp[2]))
                      \/ (Count("RequestSnap") < MaxReqSnaps /\ i \in ReqSnapNodes /\ ~(EagerReady /\ SomeReady)
                            /\ node[i].role # "L" /\ node[i].lead # 0 /\ node[i].prs = 0 /\ RequestSnapA(i))
                      \/ (Count("Unreachable") < MaxUnreach /\ ~(EagerReady /\ SomeReady) /\ node[i].role = "L"
                            /\ \E j \in Ids \ {i} : UnreachableA(i, j))
                      \/ (AllowCrash /\ Count("Crash") < MaxCrashes /\ CrashA(i))
                      \/ RestartA(i)
    \/ \E m \in BagToSet(net) : ~(EagerReady /\ SomeReady) /\
                                (\/ DeliverA(m, FALSE)
                                \/ (AllowDup /\ CopiesIn(m, net) = 1 /\ (DupTypes = {} \/ m.ty \in DupTypes)
                                      /\ Cardinality({k \in DOMAIN h : h[k].ev = "DeliverSpec" /\ h[k].keep}) < MaxDups
                                      /\ DeliverA(m, TRUE))
                                \/ (AllowDrop /\ Count("DropSpec") < MaxDrops
                                      /\ (DropTypes = {} \/ m.ty \in DropTypes) /\ (DropTo = {} \/ m.to \in DropTo)
                                      /\ DropA(m)))

Spec == Init /\ [][Next]_vars

(* a state is a hit when a predicate failed on the way to it (any predicate, or one of TargetPreds) *)
Hit == IF TargetPreds = {} THEN bad # {} ELSE bad \cap TargetPreds # {}
Bound ==
    /\ ~Hit
    /\ Len(h) <= MaxDepth
    /\ BagCardinality(net) <= MaxNet
    /\ \A i \in Ids : up[i] => /\ node[i].term <= MaxTerm
                               /\ LogLast(node[i], stor[i]) <= MaxLog

View == <<node, up, stor, dur, app, net, rdi, gh, bad>>

(* evaluated once per distinct state *)
Judge == ~Hit \/ PrintT(ToJson([k |-> "MCVIOL", bad |-> bad, h |-> h]))
NoBad == ~Hit
Replay == ~PrintReplay \/ PrintT(ToJson([k |-> "REPLAY", h |-> h]))
=============================================================================
