------------------------------- MODULE MC_Log -------------------------------
(* Operation sequences over the composite RaftLog (C14): refinement to the    *)
(* plain sequence model checked by TLC, vectors for the real RaftLog printed. *)
EXTENDS Log, Json
CONSTANTS MaxDepth, MaxIdx, Terms

VARIABLES lg, st, depth, h
vars == <<lg, st, depth, h>>

E(i, t, sz) == [i |-> i, t |-> t, ty |-> "N", p |-> IF sz = 0 THEN "" ELSE "xyz", tr |-> "", ch |-> <<>>, sz |-> sz]
Snap(i, t) == [i |-> i, t |-> t, conf |-> [EmptyConf EXCEPT !.voters = {1}], data |-> ""]
Maxes == {NoLimit, 0, 4, 9}

Init == /\ lg = [offset |-> 1, uents |-> <<>>, usnap |-> EmptySnap, committed |-> 0, persisted |-> 0,
                 applied |-> 0, maul |-> 0]
        /\ st = [hs |-> EmptyHS, conf |-> EmptyConf, ti |-> 0, tt |-> 0, ents |-> <<>>, snapi |-> 0, snapt |-> 0]
        /\ depth = 0 /\ h = <<>>

Core(l2, s2) ==
    [first |-> LFirst(l2, s2), last |-> LLast(l2, s2),
     term |-> [k \in 1..(MaxIdx + 2) |-> IF LTermErr(l2, s2, k - 1) THEN -1 ELSE LTerm(l2, s2, k - 1)],
     committed |-> l2.committed, persisted |-> l2.persisted, applied |-> l2.applied,
     offset |-> l2.offset, uents |-> l2.uents, usnap |-> l2.usnap.i]

Emit(op, res, l2, s2) ==
    PrintT(ToJson([k |-> "raftlog", h |-> h, op |-> op, res |-> res, core |-> Core(l2, s2),
                   slices |-> {}, fcbt |-> {}, utd |-> {}, next |-> {}, fc |-> {}]))

SliceQ == { [lo |-> q[1], hi |-> q[2], max |-> q[3], res |-> LSlice(lg, st, q[1], q[2], q[3])] :
              q \in {qq \in (1..(MaxIdx + 1)) \X (1..(MaxIdx + 1)) \X Maxes :
                        ~LSliceFatal(lg, st, qq[1], qq[2]) /\ qq[1] <= qq[2]} }
FcbtQ == { [i |-> q[1], t |-> q[2], res |-> LFindConflictByTerm(lg, st, q[1], q[2])] :
             q \in (0..(MaxIdx + 1)) \X (0..3) }
UtdQ == { [i |-> q[1], t |-> q[2], res |-> LIsUpToDate(lg, st, q[1], q[2])] : q \in (0..MaxIdx) \X (0..3) }
NextQ == { [since |-> q[1], max |-> q[2], has |-> LHasNextEntriesSince(lg, st, q[1]),
            res |-> LNextEntriesSince(lg, st, q[1], q[2])] :
             q \in {qq \in (0..MaxIdx) \X Maxes : qq[1] >= LFirst(lg, st) - 1} }
FcQ == { [ents |-> es, res |-> LFindConflict(lg, st, es)] :
           es \in { <<E(i, t, 0)>> : i \in 1..MaxIdx, t \in Terms }
                   \cup { <<E(i, t, 0), E(i + 1, t, 0)>> : i \in 1..(MaxIdx - 1), t \in Terms } }

(* once per distinct state: the full query table *)
QueryDump ==
    PrintT(ToJson([k |-> "raftlog", h |-> h, op |-> [op |-> "none"], res |-> 0, core |-> Core(lg, st),
                   slices |-> SliceQ, fcbt |-> FcbtQ, utd |-> UtdQ, next |-> NextQ, fc |-> FcQ]))

Step(op, res, l2, s2) ==
    /\ depth < MaxDepth
    /\ lg' = l2 /\ st' = s2 /\ depth' = depth + 1 /\ h' = Append(h, op)
    /\ Emit(op, res, l2, s2)

LastT == LLastTerm(lg, st)
AppendOp ==
    \E t \in Terms : \E n \in 1..2 : \E sz \in {0, 3} :
        /\ t >= LastT /\ LLast(lg, st) + n <= MaxIdx
        /\ LET es == [k \in 1..n |-> E(LLast(lg, st) + k, t, IF k = 1 THEN sz ELSE 0)]
           IN /\ ~LAppendFatal(lg, es)
              /\ Step([op |-> "append", ents |-> es], LLast(LAppend(lg, es), st), LAppend(lg, es), st)
MaybeAppendOp ==
    \E idx \in 0..MaxIdx : \E pt \in {0} \cup Terms : \E c \in 0..MaxIdx : \E t \in Terms : \E n \in 0..2 :
        /\ idx + n <= MaxIdx /\ t >= pt /\ (pt = 0 => idx = 0)
        /\ LET es == [k \in 1..n |-> E(idx + k, t, 0)]
               r == LMaybeAppend(lg, st, idx, pt, c, es)
           IN /\ ~r.fatal
              /\ Step([op |-> "maybe_append", idx |-> idx, term |-> pt, commit |-> c, ents |-> es],
                      IF r.ok THEN <<r.conflict, r.lastNew>> ELSE <<-1, -1>>, r.lg, st)
CommitOp == \E c \in 1..MaxIdx : /\ c > lg.committed /\ ~LCommitToFatal(lg, st, c)
                                  /\ Step([op |-> "commit_to", i |-> c], 0, LCommitTo(lg, c), st)
MaybeCommitOp == \E c \in 1..MaxIdx : \E t \in Terms :
                   Step([op |-> "maybe_commit", i |-> c, t |-> t], LMaybeCommit(lg, st, c, t),
                        IF LMaybeCommit(lg, st, c, t) THEN LCommitTo(lg, c) ELSE lg, st)
(* the application writes the unstable part to storage, then commit_ready stabilises it *)
WriteStor(s, l) ==
    LET s1 == IF LHasUSnap(l) THEN [s EXCEPT !.ti = l.usnap.i, !.tt = l.usnap.t, !.ents = <<>>] ELSE s
    IN IF l.uents = <<>> THEN s1
       ELSE [s1 EXCEPT !.ents = SubSeq(@, 1, l.uents[1].i - 1 - s1.ti) \o l.uents]
StableOp ==
    /\ (LHasUSnap(lg) \/ lg.uents # <<>>)
    /\ LET l1 == IF LHasUSnap(lg) THEN LStableSnap(lg) ELSE lg
           l2 == IF lg.uents # <<>> THEN LStableEntries(l1, Last(lg.uents).i, Last(lg.uents).t) ELSE l1
       IN Step([op |-> "stable"], 0, l2, WriteStor(st, lg))
PersistOp == \E i \in 1..MaxIdx : \E t \in Terms :
               LMaybePersist(lg, st, i, t) # lg /\ Step([op |-> "maybe_persist", i |-> i, t |-> t], 0, LMaybePersist(lg, st, i, t), st)
PersistNoOp == \E i \in 1..MaxIdx : \E t \in Terms :
               LMaybePersist(lg, st, i, t) = lg /\ i >= lg.persisted /\ i <= lg.offset
                  /\ Step([op |-> "maybe_persist", i |-> i, t |-> t], 0, lg, st)
PersistSnapOp == \E i \in 1..MaxIdx : /\ ~LMaybePersistSnapFatal(lg, i) /\ ~LHasUSnap(lg) /\ i = st.ti
                                       /\ Step([op |-> "maybe_persist_snap", i |-> i], 0, LMaybePersistSnap(lg, i), st)
RestoreOp == \E i \in 1..MaxIdx : \E t \in Terms :
               /\ ~LRestoreFatal(lg, Snap(i, t)) /\ i > lg.committed
               /\ Step([op |-> "restore", i |-> i, t |-> t], 0, LRestore(lg, Snap(i, t)), st)
CompactOp == \E k \in 1..MaxIdx : /\ k <= lg.applied /\ k > st.ti /\ StorHas(st, k) /\ k < lg.offset
                                   /\ Step([op |-> "compact", i |-> k], 0, lg,
                                           [st EXCEPT !.ti = k, !.tt = StorTerm(st, k), !.ents = SubSeq(@, k - st.ti + 1, Len(@))])
ApplyOp == \E k \in 1..MaxIdx : /\ k > lg.applied /\ ~LAppliedToFatal(lg, k) /\ k <= LApplyBound(lg)
                                 /\ Step([op |-> "applied_to", i |-> k], 0, LAppliedTo(lg, k), st)

Next == AppendOp \/ MaybeAppendOp \/ CommitOp \/ MaybeCommitOp \/ StableOp \/ PersistOp \/ PersistNoOp
        \/ PersistSnapOp \/ RestoreOp \/ CompactOp \/ ApplyOp
Spec == Init /\ [][Next]_vars

(* ---- refinement to the sequence model and the C14 invariants ---- *)
A == LAbs(lg, st)
Contiguous == \A k \in 1..Len(A.ents) : A.ents[k].i = A.si + k
TermAgrees == \A k \in 0..(MaxIdx + 1) : ~LTermErr(lg, st, k) => LTerm(lg, st, k) = ATerm(A, k)
SliceAgrees == \A lo \in LFirst(lg, st)..(LLast(lg, st) + 1) : \A hi \in lo..(LLast(lg, st) + 1) :
                  LSlice(lg, st, lo, hi, NoLimit).ents = ASlice(A, lo, hi)
Ordering == /\ lg.applied <= lg.committed /\ lg.committed <= LLast(lg, st)
            /\ lg.persisted < lg.offset \/ LHasUSnap(lg)
PersistedInStorage ==
    lg.persisted > st.ti => (StorHas(st, lg.persisted) /\ ~LHasUSnap(lg)
                               => LTerm(lg, st, lg.persisted) = StorTerm(st, lg.persisted))
LimitedSliceOK ==
    \A lo \in LFirst(lg, st)..LLast(lg, st) : \A mx \in Maxes \ {NoLimit} :
        LET full == LSlice(lg, st, lo, LLast(lg, st) + 1, NoLimit).ents
            lim == LSlice(lg, st, lo, LLast(lg, st) + 1, mx).ents
        IN /\ Len(lim) >= 1 /\ lim = SubSeq(full, 1, Len(lim))
CommittedStable ==
    [][\A k \in 1..lg.committed : (LRetained(lg, st, k) /\ LRetained(lg', st', k)) => LEntry(lg', st', k) = LEntry(lg, st, k)]_vars
View == <<lg, st>>
=============================================================================
