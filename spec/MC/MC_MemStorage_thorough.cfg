SPECIFICATION Spec
CONSTANTS
  MaxDepth = 5
  MaxIdx = 4
  Terms = {1, 2}
  Sizes = {0, 3}
INVARIANT Contiguous
INVARIANT SnapBelow
INVARIANT QueryDump
VIEW View
CHECK_DEADLOCK FALSE
