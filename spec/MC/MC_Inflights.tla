---------------------------- MODULE MC_Inflights ----------------------------
(* Exhaustive enumeration of Inflights operation sequences (C18).            *)
(* Checks FIFO/ring refinement in TLC and prints one vector per transition:  *)
(*   <<"VEC", path, op, expected>>  with expected = <<count, full, q, panics>> *)
EXTENDS Inflights, TLC, FiniteSets, Json

CONSTANTS MaxDepth, Caps, MaxIdx

VARIABLES f, r, nxt, depth, h
vars == <<f, r, nxt, depth, h>>

Obs(ff) == <<Len(ff.q), FFull(ff), ff.q>>

Init == \E c \in Caps : /\ f = FNew(c) /\ r = RNew(c) /\ nxt = 1 /\ depth = 0 /\ h = <<<<"new", c>>>>

Emit(op, f2, panics) ==
    PrintT(ToJson([k |-> "inflights", h |-> h, op |-> op, count |-> Len(f2.q), full |-> FFull(f2), q |-> f2.q,
                   cap |-> f2.cap, panics |-> panics]))

Step(op, f2, r2, n2) ==
    /\ depth < MaxDepth
    /\ f' = f2 /\ r' = r2 /\ nxt' = n2 /\ depth' = depth + 1
    /\ h' = Append(h, op)
    /\ Emit(op, f2, FALSE)

Add == /\ nxt <= MaxIdx
       /\ \E skip \in 0..1 :
            LET x == nxt + skip IN
            IF FFull(f)
            THEN /\ depth < MaxDepth /\ Emit(<<"add", x>>, f, TRUE) /\ UNCHANGED vars
            ELSE Step(<<"add", x>>, FAdd(f, x), RAdd(r, x), x + 1)
FreeTo == \E x \in 0..MaxIdx : Step(<<"free_to", x>>, FFreeTo(f, x), RFreeTo(r, x), nxt)
FreeFirst == Step(<<"free_first">>, FFreeFirst(f), RFreeFirst(r), nxt)
Reset == Step(<<"reset">>, FReset(f), RReset(r), nxt)
SetCap == \E c \in Caps : Step(<<"set_cap", c>>, FSetCap(f, c), RSetCap(r, c), nxt)
FreeBuf == Step(<<"maybe_free_buffer">>, f, RMaybeFreeBuffer(r), nxt)

Next == Add \/ FreeTo \/ FreeFirst \/ Reset \/ SetCap \/ FreeBuf
Spec == Init /\ [][Next]_vars

(* the ring refines the FIFO, and the code's own assertions never fire when the FIFO is not full *)
Refines == RAbs(r) = f
AddNeverPanics == ~FFull(f) => ~RAddPanics(r)
ShrinkEffective == (f.q = <<>>) => f.inc = None   \* a reduced capacity has taken effect once the window is empty

View == <<f, r, nxt>>
=============================================================================
