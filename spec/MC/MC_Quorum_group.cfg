INIT Init
NEXT Next
CONSTANTS
  Ids = {1, 2, 3}
  MaxAck = 3
  LargeSizes = {8}
  Mode = "group"
CHECK_DEADLOCK FALSE
