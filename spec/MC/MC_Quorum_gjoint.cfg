INIT Init
NEXT Next
CONSTANTS
  Ids = {1, 2, 3}
  MaxAck = 2
  LargeSizes = {8}
  Mode = "gjoint"
CHECK_DEADLOCK FALSE
