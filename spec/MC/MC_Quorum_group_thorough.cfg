INIT Init
NEXT Next
CONSTANTS
  Ids = {1, 2, 3, 4}
  MaxAck = 2
  LargeSizes = {8}
  Mode = "group"
CHECK_DEADLOCK FALSE
