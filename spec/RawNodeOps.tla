------------------------------ MODULE RawNodeOps ------------------------------
(***************************************************************************)
(* src/raw_node.rs: has_ready / ready / commit_ready / on_persist_ready /    *)
(* advance* as operators over the node record (n.rn holds prev_hs, prev_ss,  *)
(* max_number, records, commit_since_index and the unpersisted-HardState     *)
(* marker), plus RawNode::new and the RawNode entry points that wrap         *)
(* Raft::step.                                                               *)
(***************************************************************************)
EXTENDS Node

ResponseTypes == {"AppResp", "VoteResp", "HBResp", "Unreachable", "PreVoteResp"}
LocalTypes == {"Hup", "Beat", "Unreachable", "SnapStatus", "CheckQuorum"}

(* RawNode::step = [n, err] *)
RawStep(n, st, c, m, rt) ==
    IF m.ty \in LocalTypes THEN [n |-> n, err |-> TRUE]
    ELSE IF m.from \in DOMAIN n.pr \/ m.ty \notin ResponseTypes THEN Step(n, st, c, m, rt)
    ELSE [n |-> n, err |-> TRUE]

NE(n, err) == [n |-> n, err |-> err]
Local(ty, from) == [Msg(ty, 0) EXCEPT !.from = from]
DataEntry(p, sz) == [EmptyEntry EXCEPT !.p = p, !.sz = sz]
RawPropose(n, st, c, ents, rt) == Step(n, st, c, [Local("Prop", n.id) EXCEPT !.ents = ents], rt)
RawProposeConf(n, st, c, e, rt) == Step(n, st, c, [Local("Prop", 0) EXCEPT !.ents = <<e>>], rt)
RawCampaign(n, st, c, rt) == Step(n, st, c, Local("Hup", 0), rt)
RawReadIndex(n, st, c, ctx, rt) ==
    Step(n, st, c, [Local("ReadIndex", 0) EXCEPT !.ents = <<DataEntry(ctx, CtxLen)>>], rt)
RawTransfer(n, st, c, to, rt) == Step(n, st, c, Local("Transfer", to), rt)
RawPing(n) == IF n.role = "L" THEN BcastHeartbeat(n) ELSE n
RawUnreachable(n, st, c, j, rt) == Step(n, st, c, Local("Unreachable", j), rt)
RawReportSnapshot(n, st, c, j, ok, rt) == Step(n, st, c, [Local("SnapStatus", j) EXCEPT !.rej = ~ok], rt)

(* runtime setters (RawNode::set_priority, set_batch_append, skip_bcast_commit, Raft::set_check_quorum,
   set_max_committed_size_per_ready, set_max_apply_unpersisted_log_limit, adjust_max_inflight_msgs,
   enable_group_commit, assign_commit_groups, clear_commit_group) *)
CommitThenBcast(n, st, c) ==
    LET mc == MaybeCommit(n, st)
    IN IF mc[1] /\ ~mc[2].pan THEN BcastAppend(mc[2], st, c) ELSE mc[2]
RawSetKnob(n, st, c, name, j, val) ==
    CASE name = "batch_append" -> [n EXCEPT !.batchAppend = (val # 0)]
      [] name = "skip_bcast_commit" -> [n EXCEPT !.skipBcastCommit = (val # 0)]
      [] name = "max_committed_size_per_ready" -> [n EXCEPT !.maxCommittedSize = val]
      [] name = "priority" -> [n EXCEPT !.prio = val]
      [] name = "check_quorum" -> [n EXCEPT !.checkQuorum = (val # 0)]
      [] name = "max_apply_unpersisted_log_limit" -> [n EXCEPT !.log.maul = val]
      [] name = "inflight" -> IF j \in DOMAIN n.pr THEN [n EXCEPT !.pr[j].ins = RSetCap(@, val)] ELSE n
      [] name = "group_commit" ->
            LET n1 == [n EXCEPT !.groupCommit = (val # 0)]
            IN IF n.role = "L" /\ val = 0 THEN CommitThenBcast(n1, st, c) ELSE n1
      [] name = "group" ->
            LET n1 == IF j \in DOMAIN n.pr THEN [n EXCEPT !.pr[j].cg = val] ELSE n
            IN IF n.role = "L" /\ n.groupCommit THEN CommitThenBcast(n1, st, c) ELSE n1
      [] name = "clear_groups" -> [n EXCEPT !.pr = [k \in DOMAIN n.pr |-> [n.pr[k] EXCEPT !.cg = 0]]]
      [] OTHER -> n

(* Raft::request_snapshot = [n, err] *)
RawRequestSnapshot(n, st) ==
    IF n.role = "L" \/ n.lead = 0 \/ HasUSnap(n) \/ n.prs # 0 THEN [n |-> n, err |-> TRUE]
    ELSE LET ri == Last_(n, st)
         IN IF LTermErr(n.log, st, ri) THEN [n |-> Panic(n), err |-> FALSE]
            ELSE IF n.term = LTerm(n.log, st, ri)
                 THEN [n |-> SendRequestSnapshot([n EXCEPT !.prs = ri], st), err |-> FALSE]
                 ELSE [n |-> n, err |-> TRUE]

(* ---------------- has_ready / ready ---------------- *)
HasReady(n, st) ==
    \/ n.msgs # <<>>
    \/ n.lead # n.rn.prevLead \/ n.role # n.rn.prevRole
    \/ HSOf(n) # n.rn.prevHS
    \/ n.readStates # <<>>
    \/ n.log.uents # <<>>
    \/ HasUSnap(n)
    \/ LHasNextEntriesSince(n.log, st, n.rn.commitSince)

(* gen_light_ready = [n, committed, msgs] *)
GenLightReady(n, st, c) ==
    LET ce == LNextEntriesSince(n.log, st, n.rn.commitSince, n.maxCommittedSize)
        n1 == ReduceUncommitted(n, c, ce)
        bad == ce # <<>> /\ ~(n.rn.commitSince < Last(ce).i)
        n2 == IF ce # <<>> THEN [n1 EXCEPT !.rn.commitSince = Last(ce).i] ELSE n1
    IN [n |-> [(IF bad THEN Panic(n2) ELSE n2) EXCEPT !.msgs = <<>>], committed |-> ce, msgs |-> n.msgs]

EmptyRd == [number |-> 0, hasHS |-> FALSE, hs |-> EmptyHS, hasSS |-> FALSE, ents |-> <<>>, snap |-> EmptySnap,
            committed |-> <<>>, msgs |-> <<>>, pmsgs |-> <<>>, readStates |-> <<>>, mustSync |-> FALSE,
            commitIndex |-> 0]

(* RawNode::ready = [n, rd] *)
Ready(n, st, c) ==
    LET number == n.rn.maxNumber + 1
        becameLeader == n.rn.prevRole # "L" /\ n.role = "L"
        drainBad == becameLeader /\ \E k \in DOMAIN n.rn.records : n.rn.records[k].li # 0 \/ n.rn.records[k].si # 0
        recs0 == IF becameLeader THEN <<>> ELSE n.rn.records
        hs == HSOf(n)
        hasHS == hs # n.rn.prevHS
        tvChanged == hasHS /\ ((hs.vote # n.rn.prevHS.vote /\ ~Ab("MustSyncOnVoteChange")) \/ hs.term # n.rn.prevHS.term)
        hasSS == n.lead # n.rn.prevLead \/ n.role # n.rn.prevRole
        hasSnap == HasUSnap(n)
        cs1 == IF hasSnap THEN n.log.usnap.i ELSE n.rn.commitSince
        snapBad == hasSnap /\ (n.rn.commitSince > n.log.usnap.i \/ LHasNextEntriesSince(n.log, st, cs1))
        ents == n.log.uents
        rec == [number |-> number,
                li |-> IF ents # <<>> THEN Last(ents).i ELSE 0, lt |-> IF ents # <<>> THEN Last(ents).t ELSE 0,
                si |-> IF hasSnap THEN n.log.usnap.i ELSE 0, st |-> IF hasSnap THEN n.log.usnap.t ELSE 0]
        uhs == IF tvChanged THEN number ELSE n.rn.uhs
        mustSync0 == tvChanged \/ hasSnap \/ ents # <<>>
        persistedMsg == IF Ab("FollowerMessagesWaitForPersist") /\ n.role = "F" THEN mustSync0
                        ELSE n.role # "L" \/ (uhs # 0 /\ ~Ab("LeaderMessagesWaitForOwnHardState"))
        n1 == [n EXCEPT !.rn.maxNumber = number, !.rn.commitSince = cs1, !.rn.uhs = uhs, !.readStates = <<>>]
        g == GenLightReady(n1, st, c)
        n2 == [g.n EXCEPT !.rn.records = Append(recs0, rec)]
    IN [n |-> IF drainBad \/ snapBad THEN Panic(n2) ELSE n2,
        rd |-> [number |-> number, hasHS |-> hasHS, hs |-> IF hasHS THEN hs ELSE EmptyHS, hasSS |-> hasSS,
                ents |-> ents, snap |-> IF hasSnap THEN n.log.usnap ELSE EmptySnap,
                committed |-> g.committed,
                msgs |-> IF persistedMsg THEN <<>> ELSE g.msgs,
                pmsgs |-> IF persistedMsg THEN g.msgs ELSE <<>>,
                readStates |-> n.readStates,
                mustSync |-> tvChanged \/ hasSnap \/ ents # <<>>,
                commitIndex |-> 0]]

(* commit_ready(rd); rdi = [hasSS, lead, role, hasHS, hs] remembered from the Ready *)
CommitReady(n, rdi) ==
    LET n1 == IF rdi.hasSS THEN [n EXCEPT !.rn.prevLead = rdi.lead, !.rn.prevRole = rdi.role] ELSE n
        n2 == IF rdi.hasHS THEN [n1 EXCEPT !.rn.prevHS = rdi.hs] ELSE n1
        bad0 == n2.rn.records = <<>> \/ Last(n2.rn.records).number # rdi.number
        rec == Last(n2.rn.records)
    IN IF bad0 THEN Panic(n2)
       ELSE LET badSnap == rec.si # 0 /\ LStableSnapFatal(n2.log, rec.si)
                lg1 == IF rec.si # 0 THEN LStableSnap(n2.log) ELSE n2.log
                badEnt == rec.li # 0 /\ LStableEntriesFatal(lg1, rec.li, rec.lt)
                lg2 == IF rec.li # 0 THEN LStableEntries(lg1, rec.li, rec.lt) ELSE lg1
            IN IF badSnap \/ badEnt THEN Panic(n2) ELSE SetLog(n2, lg2)

RECURSIVE PopRecords(_, _, _)
(* <<records', index, term, snapIndex>> *)
PopRecords(recs, number, acc) ==
    IF recs = <<>> \/ recs[1].number > number THEN <<recs, acc[1], acc[2], acc[3]>>
    ELSE LET r == recs[1]
             a1 == IF r.si # 0 THEN <<0, 0, r.si>> ELSE acc
             a2 == IF r.li # 0 THEN <<r.li, r.lt, a1[3]>> ELSE a1
         IN PopRecords(Tail(recs), number, a2)

OnPersistReady(n, st, c, number) ==
    LET n0 == IF (IF Ab("PersistMarkClearedByNumber") THEN n.rn.maxNumber ELSE number) >= n.rn.uhs THEN [n EXCEPT !.rn.uhs = 0] ELSE n
        p == PopRecords(n0.rn.records, number, <<0, 0, 0>>)
        n1 == [n0 EXCEPT !.rn.records = p[1]]
        n2 == IF p[4] # 0 THEN OnPersistSnap(n1, p[4]) ELSE n1
    IN IF n2.pan THEN n2
       ELSE IF p[2] # 0 THEN OnPersistEntries(n2, st, c, p[2], p[3]) ELSE n2

(* advance_append = [n, light] where light = [committed, msgs, commitIndex] *)
AdvanceAppend(n, st, c, rdi) ==
    LET n1 == CommitReady(n, rdi)
    IN IF n1.pan THEN [n |-> n1, light |-> [committed |-> <<>>, msgs |-> <<>>, commitIndex |-> 0]]
       ELSE LET n2 == OnPersistReady(n1, st, c, n1.rn.maxNumber)
                g == GenLightReady(n2, st, c)
                hs == HSOf(g.n)
                bad == (g.n.role # "L" /\ g.msgs # <<>>) \/ hs.commit < g.n.rn.prevHS.commit
                ci == IF hs.commit > g.n.rn.prevHS.commit THEN hs.commit ELSE 0
                n3 == [g.n EXCEPT !.rn.prevHS.commit = hs.commit]
                bad2 == HSOf(n3) # n3.rn.prevHS
            IN [n |-> IF n2.pan \/ bad \/ bad2 THEN Panic(n3) ELSE n3,
                light |-> [committed |-> g.committed, msgs |-> g.msgs, commitIndex |-> ci]]

AdvanceApplyTo(n, st, c, applied) == CommitApply(n, st, c, applied)
Advance(n, st, c, rdi) ==
    LET applied == n.rn.commitSince
        r == AdvanceAppend(n, st, c, rdi)
    IN [n |-> IF r.n.pan THEN r.n ELSE AdvanceApplyTo(r.n, st, c, applied), light |-> r.light]
AdvanceAppendAsync(n, rdi) == CommitReady(n, rdi)

(* ---------------- RawNode::new ---------------- *)
NewNode(id, st, c, applied, rt) ==
    LET first == StorFirst(st)
        last == StorLast(st)
        lg == [offset |-> last + 1, uents |-> <<>>, usnap |-> EmptySnap, committed |-> first - 1,
               persisted |-> last, applied |-> first - 1, maul |-> c.max_apply_unpersisted_log_limit]
        r == Restore(st.conf)
        n0 == [id |-> id, term |-> 0, vote |-> 0, role |-> "F", lead |-> 0, ee |-> 0, he |-> 0, rt |-> 0,
               lte |-> 0, pci |-> 0, prs |-> 0, promotable |-> FALSE, prio |-> c.priority, votes |-> EmptyFn,
               conf |-> EmptyConf, pr |-> EmptyFn, ro |-> EmptyRO, readStates |-> <<>>, msgs |-> <<>>, log |-> lg,
               rn |-> [prevHS |-> EmptyHS, prevLead |-> 0, prevRole |-> "F", maxNumber |-> 0, records |-> <<>>,
                       commitSince |-> applied, uhs |-> 0],
               usz |-> 0, lti |-> 0, checkQuorum |-> c.check_quorum, preVote |-> c.pre_vote,
               skipBcastCommit |-> c.skip_bcast_commit, batchAppend |-> c.batch_append,
               maxCommittedSize |-> c.max_committed_size_per_ready, groupCommit |-> FALSE, pan |-> FALSE]
    IN IF ~r.ok \/ r.t.conf # st.conf THEN Panic(n0)
       ELSE LET n1 == PostConfChange(InstallTracker(n0, r.t, last, c.max_inflight), st, c)
                hsBad == st.hs # EmptyHS /\ (st.hs.commit < lg.committed \/ st.hs.commit > last)
                n2 == IF st.hs # EmptyHS
                      THEN [n1 EXCEPT !.log.committed = st.hs.commit, !.term = st.hs.term, !.vote = st.hs.vote]
                      ELSE n1
                n3 == IF applied > 0 THEN [n2 EXCEPT !.log.applied = applied] ELSE n2
                n4 == BecomeFollower(n3, st, n3.term, 0, rt)
            IN IF hsBad THEN Panic(n4)
               ELSE [n4 EXCEPT !.rn.prevHS = HSOf(n4), !.rn.prevLead = n4.lead, !.rn.prevRole = n4.role]

=============================================================================
