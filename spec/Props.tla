-------------------------------- MODULE Props --------------------------------
(***************************************************************************)
(* The listed properties C01..C20 (system-level ones) as TLA+ predicates    *)
(* over the abstract cluster state, the last event and ghost history.       *)
(* The same module is used (a) by the model-checking configurations of      *)
(* RaftRs.tla and (b) by Trace.tla on executions recorded from the real     *)
(* code.  Every predicate is a state predicate over                          *)
(*    node, up, stor, dur, app, cfg   -- cluster state after the event      *)
(*    pre                             -- acting node's state before it      *)
(*    evt                             -- the event (action, args, outputs)  *)
(*    gh                              -- ghost / history state               *)
(* `Violations` is the set of names of predicates that fail in a state.     *)
(***************************************************************************)
EXTENDS Base, Inflights

VARIABLES node, up, stor, dur, app, cfg, pre, evt, gh

pvars == <<node, up, stor, dur, app, cfg, pre, evt, gh>>

-----------------------------------------------------------------------------
(* Event vocabulary                                                          *)

CallEvents == {"Tick", "Deliver", "Propose", "ProposeBatch", "ProposeConf", "ReadIndex",
               "Transfer", "Campaign", "Ping", "Unreachable", "ReportSnap", "RequestSnap",
               "Ready", "Advance", "AdvanceAppend", "AdvanceAsync", "Notify", "Apply",
               "SetKnob", "Bogus"}
ReadyEvents == {"Ready", "Advance", "AdvanceAppend"}
ProposeEvents == {"Propose", "ProposeBatch", "ProposeConf"}

an == evt.n                       \* acting node (0 for network-only events)
Acting == an \in Nodes
P == pre.node                    \* acting node before the event
PS == pre.stor
Q == node[an]                     \* acting node after the event
QS == stor[an]
IsCall == Acting /\ evt.ev \in CallEvents
SameInc == IsCall /\ pre.up /\ up[an]          \* same incarnation before and after
M == evt.a.m                     \* delivered message (Deliver events only)
IsDeliver(ty) == evt.ev = "Deliver" /\ M.ty = ty

GenTo(j, tys) == {k \in DOMAIN evt.gen : evt.gen[k].to = j /\ evt.gen[k].ty \in tys}
HasEntries(m) == Len(m.ents) > 0

(* a "log-only node" for comparing the durable image of a crashed node *)
ImgNode(st) == [log |-> [offset |-> StorLast(st) + 1, uents |-> <<>>, usnap |-> EmptySnap]]
LNode(j) == IF up[j] THEN node[j] ELSE ImgNode(dur[j])
LStor(j) == IF up[j] THEN stor[j] ELSE dur[j]

MajorityOf(S, H) == Cardinality(S \cap H) * 2 > Cardinality(H)
QuorumOf(S, c) == /\ (c.voters # {} => MajorityOf(S, c.voters))
                  /\ (c.outgoing # {} => MajorityOf(S, c.outgoing))

-----------------------------------------------------------------------------
(* Ghost state                                                               *)

GhostInit ==
    [ CL        |-> <<>>,        \* first entry reported committed at each index
      clBy      |-> <<>>,        \* term of the leader whose step committed it (0: first seen on a non-leader)
      leaders   |-> {},          \* <<term, node>> ever observed in role Leader
      members   |-> {},          \* nodes that exist in this run
      toldTerm  |-> [j \in Nodes |-> 0],     \* max term in any released promise-carrying message
      toldVotes |-> [j \in Nodes |-> {}],    \* <<term, candidate>> votes released (grants and own candidacy)
      everDur   |-> [j \in Nodes |-> {}],    \* <<index, term>> ever in the durable image of j
      everSnap  |-> [j \in Nodes |-> 0],     \* highest durable snapshot point of j
      maxLeaderCommit |-> 0,
      maxCommit |-> 0,
      reads     |-> <<>>,        \* sequence of [ctx, node, atIssue]
      handedTo  |-> [j \in Nodes |-> 0],
      confAt    |-> <<>>,        \* sequence of [k, conf]: configuration after applying index k
      smAt      |-> <<>>,        \* sequence of [k, sm]
      lease     |-> [on |-> FALSE, leader |-> 0, members |-> {}, term |-> 0],
      probe     |-> "" ]

PromiseTerm(m) ==      \* the term a released message commits its sender to
    IF m.ty = "PreVote" \/ (m.ty = "PreVoteResp" /\ ~m.rej) THEN 0 ELSE m.term

ReleasedVotes(j, out) ==
    {<<out[k].term, out[k].to>> : k \in {x \in DOMAIN out : out[x].ty = "VoteResp" /\ ~out[x].rej}}
    \cup {<<out[k].term, j>> : k \in {x \in DOMAIN out : out[x].ty = "Vote"}}

RECURSIVE ExtendCL(_, _, _, _, _)
ExtendCL(cl, by, n, st, c) ==
    IF Len(cl) >= c THEN [CL |-> cl, clBy |-> by]
    ELSE LET k == Len(cl) + 1
             e == IF Retained(n, st, k) THEN LogEntry(n, st, k)
                  ELSE [i |-> k, t |-> 0, ty |-> "?", p |-> "", tr |-> "", ch |-> <<>>, sz |-> 0]
         IN ExtendCL(Append(cl, e), Append(by, IF n.role = "L" THEN n.term ELSE 0), n, st, c)

Lookup(seq, k) == LET S == {x \in DOMAIN seq : seq[x].k = k} IN IF S = {} THEN 0 ELSE CHOOSE x \in S : TRUE

(* Ghost successor, computed from the post-event cluster state (primed by the caller). *)
GhostNext(g, e, n, st, du, ap, isUp) ==
    LET j == e.n
        ext == IF isUp THEN ExtendCL(g.CL, g.clBy, n, st, n.log.committed)
               ELSE [CL |-> g.CL, clBy |-> g.clBy]
        isApply == e.ev \in {"Apply", "Advance"} /\ isUp
        k == ap.applied
    IN [ g EXCEPT
         !.CL = ext.CL,
         !.clBy = ext.clBy,
         !.leaders = IF isUp /\ n.role = "L" THEN @ \cup {<<n.term, j>>} ELSE @,
         !.members = @ \cup {j},
         !.toldTerm[j] = SetMax({@} \cup {PromiseTerm(e.out[x]) : x \in DOMAIN e.out}),
         !.toldVotes[j] = @ \cup ReleasedVotes(j, e.out),
         !.everDur[j] = @ \cup {<<du.ents[x].i, du.ents[x].t>> : x \in DOMAIN du.ents},
         !.everSnap[j] = Max(@, du.ti),
         !.maxLeaderCommit = IF isUp /\ n.role = "L" THEN Max(@, n.log.committed) ELSE @,
         !.maxCommit = IF isUp THEN Max(@, n.log.committed) ELSE @,
         !.reads = IF e.ev = "ReadIndex" THEN Append(@, [ctx |-> e.a.ctx, node |-> j, atIssue |-> g.maxCommit]) ELSE @,
         !.handedTo[j] =
             IF e.ev \in {"Restart", "Init"} THEN e.a.applied
             ELSE IF e.ev \in ReadyEvents /\ e.rk = "ok"
                  THEN LET base == IF e.rd.snap.i > 0 THEN e.rd.snap.i ELSE @
                       IN IF Len(e.rd.committed) > 0 THEN Last(e.rd.committed).i ELSE base
                  ELSE @,
         !.confAt = IF isApply /\ Lookup(@, k) = 0 THEN Append(@, [k |-> k, conf |-> n.conf]) ELSE @,
         !.smAt = IF isApply /\ Lookup(@, k) = 0 THEN Append(@, [k |-> k, sm |-> ap.sm]) ELSE @
       ]

-----------------------------------------------------------------------------
(* C01  State-machine safety                                                 *)

AgreesWithCL(n, st) ==
    \A k \in 1..Min(n.log.committed, Len(gh.CL)) :
        (Retained(n, st, k) /\ gh.CL[k].ty # "?") => LogEntry(n, st, k) = gh.CL[k]

C01_Agree == \A j \in gh.members : up[j] => AgreesWithCL(node[j], stor[j])

C01_Handed ==
    (Acting /\ evt.ev \in ReadyEvents /\ evt.rk = "ok") =>
        \A x \in DOMAIN evt.rd.committed :
            LET e == evt.rd.committed[x]
            IN (e.i <= Len(gh.CL) /\ gh.CL[e.i].ty # "?") => e = gh.CL[e.i]

C01_Snapshot ==
    (Acting /\ evt.ev = "Ready" /\ evt.rk = "ok" /\ evt.rd.snap.i > 0) =>
        LET s == evt.rd.snap
        IN (s.i <= Len(gh.CL) /\ gh.CL[s.i].ty # "?") => s.t = gh.CL[s.i].t

-----------------------------------------------------------------------------
(* C02  Election safety                                                      *)

C02_OneLeaderPerTerm == \A a, b \in gh.leaders : a[1] = b[1] => a[2] = b[2]

(* what makes that true: a node becomes leader of term T only after a majority of every voter set of its configuration
   released a vote for it in T (its own candidacy counts as its vote) *)
C02_ElectedByQuorum ==
    (SameInc /\ Q.role = "L" /\ P.role # "L") =>
        QuorumOf({j \in Nodes : <<Q.term, an>> \in gh.toldVotes[j]} \cup {an}, Q.conf)

-----------------------------------------------------------------------------
(* C03  Leader completeness and the election restriction                     *)

C03_LeaderComplete ==
    (Acting /\ up[an] /\ Q.role = "L") =>
        \A k \in DOMAIN gh.CL :
            (gh.clBy[k] > 0 /\ gh.clBy[k] < Q.term /\ gh.CL[k].ty # "?") =>
                \/ k <= SnapPoint(Q, QS)
                \/ (Retained(Q, QS, k) /\ LogEntry(Q, QS, k) = gh.CL[k])

C03_GrantOnlyUpToDate ==
    (SameInc /\ evt.ev = "Deliver" /\ M.ty \in {"Vote", "PreVote"}) =>
        \A x \in DOMAIN evt.gen :
            LET g == evt.gen[x]
            IN (g.ty \in {"VoteResp", "PreVoteResp"} /\ ~g.rej /\ g.to = M.from) =>
                   \/ M.lt > LogLastTerm(P, PS)
                   \/ (M.lt = LogLastTerm(P, PS) /\ M.idx >= LogLast(P, PS))

-----------------------------------------------------------------------------
(* C04  Commit rule                                                          *)

Advanced == SameInc /\ Q.log.committed > P.log.committed
DurableAt(j, c, t) == <<c, t>> \in gh.everDur[j] \/ gh.everSnap[j] >= c

C04_LeaderOwnTerm ==
    (Advanced /\ Q.role = "L") => LogTerm(Q, QS, Q.log.committed) = Q.term

C04_LeaderQuorumDurable ==
    (Advanced /\ Q.role = "L") =>
        LET c == Q.log.committed
            D == {j \in Nodes : DurableAt(j, c, Q.term)}
        IN QuorumOf(D, Q.conf)

(* what a leader counts as acknowledged by a peer is durable there (with the leader's term at that index) *)
C04_MatchedIsDurable ==
    (Acting /\ up[an] /\ Q.role = "L") =>
        \A j \in DOMAIN Q.pr :
            LET k == Q.pr[j].matched
            IN (k > 0 /\ ~LogTermErr(Q, QS, k) /\ LogTerm(Q, QS, k) > 0) => DurableAt(j, k, LogTerm(Q, QS, k))

C04_NonLeaderBounded ==
    (Advanced /\ Q.role # "L") =>
        /\ Q.log.committed <= gh.maxLeaderCommit
        \* ... and what it marks committed is the entry a leader committed there, not merely the same index
        /\ \A k \in (P.log.committed + 1)..Q.log.committed :
               (k <= Len(gh.CL) /\ gh.CL[k].ty # "?" /\ gh.clBy[k] > 0 /\ Retained(Q, QS, k)) => LogEntry(Q, QS, k) = gh.CL[k]

-----------------------------------------------------------------------------
(* C05  Log matching, leader append-only, committed prefix immutable         *)

LogMatch(a, sa, b, sb) ==
    LET top == Min(LogLast(a, sa), LogLast(b, sb))
        same == {k \in 1..top : Retained(a, sa, k) /\ Retained(b, sb, k)
                                /\ LogEntry(a, sa, k).t = LogEntry(b, sb, k).t}
    IN same # {} =>
        \A k2 \in 1..SetMax(same) :
            (Retained(a, sa, k2) /\ Retained(b, sb, k2)) => LogEntry(a, sa, k2) = LogEntry(b, sb, k2)

(* an entry sits at the position its own index names: otherwise the log "holds an entry with index i and term t"
   (the one a peer holds at position i) without being identical to the peer's log up to i *)
WellIndexed(a, sa) == \A k \in 1..LogLast(a, sa) : Retained(a, sa, k) => LogEntry(a, sa, k).i = k

C05_LogMatching ==
    (Acting /\ an \in gh.members) =>
        /\ \A j \in gh.members \ {an} : LogMatch(LNode(an), LStor(an), LNode(j), LStor(j))
        /\ WellIndexed(LNode(an), LStor(an))

C05_LeaderAppendOnly ==
    (SameInc /\ P.role = "L" /\ Q.role = "L" /\ P.term = Q.term) =>
        /\ LogLast(Q, QS) >= LogLast(P, PS)
        /\ \A k \in 1..LogLast(P, PS) :
               (Retained(P, PS, k) /\ Retained(Q, QS, k)) => LogEntry(Q, QS, k) = LogEntry(P, PS, k)

C05_CommittedImmutable ==
    SameInc =>
        \A k \in 1..P.log.committed :
            (Retained(P, PS, k) /\ Retained(Q, QS, k)) => LogEntry(Q, QS, k) = LogEntry(P, PS, k)

-----------------------------------------------------------------------------
(* C06  Promises survive crashes                                             *)

C06_TermMonotone == SameInc => Q.term >= P.term

C06_RestartKeepsPromises ==
    (Acting /\ evt.ev = "Restart" /\ up[an]) =>
        /\ Q.term >= gh.toldTerm[an]
        /\ \A v \in gh.toldVotes[an] : v[1] = Q.term => Q.vote = v[2]

C06_VoteOncePerTerm ==
    Acting => \A v1, v2 \in gh.toldVotes[an] : v1[1] = v2[1] => v1[2] = v2[2]

LeaderMsgTypes == {"App", "HB", "Snap", "TimeoutNow", "ReadIndexResp"}
DurCoversVote(D, t, cand) == D.hs.term > t \/ (D.hs.term = t /\ D.hs.vote = cand)
DurableCovers(j, m) ==
    LET D == dur[j]
    IN /\ PromiseTerm(m) > 0 => D.hs.term >= PromiseTerm(m)
       /\ m.ty = "Vote" => DurCoversVote(D, m.term, j)
       /\ (m.ty = "VoteResp" /\ ~m.rej) => DurCoversVote(D, m.term, m.to)
       /\ m.ty \in LeaderMsgTypes => DurCoversVote(D, m.term, j)
       /\ (m.ty = "AppResp" /\ ~m.rej /\ m.idx > 0) =>
             \/ D.ti >= m.idx
             \/ /\ StorHas(D, m.idx)
                /\ (up[j] /\ node[j].term = m.term /\ Retained(node[j], stor[j], m.idx))
                       => StorEntry(D, m.idx) = LogEntry(node[j], stor[j], m.idx)

C06_PersistBeforeSend ==
    Acting => \A x \in DOMAIN evt.out : DurableCovers(an, evt.out[x])

-----------------------------------------------------------------------------
(* C07  Ready contract                                                       *)

RdEmpty(rd) == /\ ~rd.hasHS /\ ~rd.hasSS /\ rd.ents = <<>> /\ rd.snap.i = 0 /\ rd.committed = <<>>
               /\ rd.msgs = <<>> /\ rd.pmsgs = <<>> /\ rd.readStates = <<>>

ApplyBound(n) == IF n.log.maul = NoLimit THEN n.log.committed
                 ELSE Min(n.log.committed, n.log.persisted + n.log.maul)
HasNextEntsSince(n, st, since) == ApplyBound(n) + 1 > Max(since + 1, LogFirst(n, st))
HasReadySpec(n, st) ==
    \/ n.msgs # <<>>
    \/ n.lead # n.rn.prevLead \/ n.role # n.rn.prevRole
    \/ HSOf(n) # n.rn.prevHS
    \/ n.readStates # <<>>
    \/ n.log.uents # <<>>
    \/ HasUSnap(n)
    \/ HasNextEntsSince(n, st, n.rn.commitSince)

IsRdEvent == Acting /\ evt.ev \in ReadyEvents /\ evt.rk = "ok" /\ up[an]

C07_HandOffExact ==
    (IsRdEvent /\ Len(evt.rd.committed) > 0) =>
        LET ce == evt.rd.committed
            base == IF evt.ev = "Ready" /\ evt.rd.snap.i > 0 THEN evt.rd.snap.i ELSE pre.handedTo
        IN /\ ce[1].i = base + 1
           /\ \A x \in DOMAIN ce :
                  /\ ce[x].i = ce[1].i + x - 1
                  /\ ce[x].i <= Q.log.committed
                  /\ Retained(Q, QS, ce[x].i) => LogEntry(Q, QS, ce[x].i) = ce[x]

C07_HandOffPersistedOnly ==
    (IsRdEvent /\ Len(evt.rd.committed) > 0) => Last(evt.rd.committed).i <= ApplyBound(Q)

C07_EntriesOnce == (IsRdEvent /\ evt.ev = "Ready") => evt.rd.ents = P.log.uents

C07_HardState ==
    (IsRdEvent /\ evt.ev = "Ready") =>
        /\ evt.rd.hasHS <=> (HSOf(P) # P.rn.prevHS)
        /\ evt.rd.hasHS => evt.rd.hs = HSOf(P)

C07_MustSync ==
    (IsRdEvent /\ evt.ev = "Ready") =>
        (evt.rd.mustSync <=>
            \/ evt.rd.ents # <<>>
            \/ evt.rd.snap.i > 0
            \/ (evt.rd.hasHS /\ (evt.rd.hs.term # P.rn.prevHS.term \/ evt.rd.hs.vote # P.rn.prevHS.vote)))

C07_SnapshotAlone ==
    (IsRdEvent /\ evt.ev = "Ready") =>
        /\ evt.rd.snap.i = P.log.usnap.i /\ evt.rd.snap.t = P.log.usnap.t
        /\ evt.rd.snap.i > 0 => evt.rd.committed = <<>>

C07_HasReadyExact ==
    (Acting /\ up[an] /\ evt.ev \in CallEvents \cup {"Restart", "Init"}) =>
        (evt.hr <=> HasReadySpec(Q, QS))

C07_ReadyNonEmpty ==
    (IsRdEvent /\ evt.ev = "Ready") => (evt.hr0 <=> ~RdEmpty(evt.rd))

C07_StorageContract == Acting => evt.rk # "storerr"

-----------------------------------------------------------------------------
(* C08  ReadIndex (Safe) linearizability                                     *)

(* C08 speaks about ReadOnlyOption::Safe; executions in which some node runs lease-based reads are exempt *)
AnyLeaseRead == \E j \in DOMAIN cfg : "lease_read" \in DOMAIN cfg[j] /\ cfg[j].lease_read

C08_ReadLinearizable ==
    (IsRdEvent /\ evt.ev = "Ready" /\ ~AnyLeaseRead) =>
        \A x \in DOMAIN evt.rd.readStates :
            LET rs == evt.rd.readStates[x]
                S == {y \in DOMAIN gh.reads : gh.reads[y].ctx = rs.ctx}
            IN \A y \in S : /\ rs.index >= gh.reads[y].atIssue
                            /\ gh.reads[y].node = an

(* a read is answered only after a quorum of the active configuration acknowledged a heartbeat that
   carried it (or a later read); a request that is answered at once needs the leader alone to be a quorum *)
PendingCtxs(n) == DOMAIN n.ro.pending
C08_AnswerNeedsQuorum ==
    (SameInc /\ P.role = "L" /\ Q.role = "L" /\ P.term = Q.term /\ ~AnyLeaseRead) =>
        LET answered == PendingCtxs(P) \ PendingCtxs(Q)
            newAck == IF evt.ev = "Deliver" /\ M.ty = "HBResp" THEN {M.from}
                      ELSE IF evt.ev \in {"Apply", "Advance"} THEN {an} ELSE {}
            immediate == /\ (evt.ev = "ReadIndex" \/ (evt.ev = "Deliver" /\ M.ty = "ReadIndex"))
                         /\ PendingCtxs(Q) = PendingCtxs(P)
                         /\ (Len(Q.readStates) > Len(P.readStates)
                              \/ \E x \in DOMAIN evt.gen : evt.gen[x].ty = "ReadIndexResp")
        IN /\ answered # {} => \E c \in answered : QuorumOf(P.ro.pending[c].acks \cup newAck, Q.conf)
           /\ immediate => QuorumOf({an}, Q.conf)

-----------------------------------------------------------------------------
(* C09  Membership changes                                                   *)

ConfIdxBeyondApplied(n, st) ==
    {k \in (n.log.applied + 1)..LogLast(n, st) : Retained(n, st, k) /\ IsConfEntry(LogEntry(n, st, k))}

C09_OnePendingConf ==
    (Acting /\ up[an] /\ Q.role = "L") => Cardinality(ConfIdxBeyondApplied(Q, QS)) <= 1

C09_ProposalFilter ==
    (SameInc /\ evt.ev = "ProposeConf" /\ evt.rk = "ok" /\ P.role = "L"
        /\ LogLast(Q, QS) = LogLast(P, PS) + 1) =>
        LET e == LogEntry(Q, QS, LogLast(Q, QS))
            leave == ~evt.a.v1 /\ Len(evt.a.ch) = 0
        IN IsConfEntry(e) =>
              /\ ConfIdxBeyondApplied(P, PS) = {}
              /\ (IsJoint(P.conf) <=> leave)

(* equal applied index => equal configuration (also after restart / snapshot) *)
C09_ConfFunctionOfLog ==
    /\ (Acting /\ up[an] /\ evt.ev \in {"Apply", "Advance", "Restart"}) =>
           LET x == Lookup(gh.confAt, app[an].applied)
           IN x # 0 => gh.confAt[x].conf = Q.conf
    /\ (Acting /\ up[an] /\ evt.ev = "Deliver" /\ M.ty = "Snap" /\ Q.log.usnap.i > P.log.usnap.i) =>
           LET x == Lookup(gh.confAt, Q.log.usnap.i)
           IN x # 0 => gh.confAt[x].conf = Q.conf

StartedElection ==
    /\ SameInc
    /\ evt.ev \in {"Tick", "Campaign"} \/ IsDeliver("TimeoutNow")
    /\ \/ (Q.role \in {"P", "C"} /\ (P.role \notin {"P", "C"} \/ Q.term > P.term))
       \/ (Q.role = "L" /\ P.role # "L")
       \/ \E x \in DOMAIN evt.gen : evt.gen[x].ty \in {"Vote", "PreVote"}

C09_NoCampaignOverUnappliedConf ==
    StartedElection =>
        LET lo == IF HasUSnap(P) THEN P.log.usnap.i + 1 ELSE P.log.applied + 1
        IN \A k \in lo..P.log.committed :
               Retained(P, PS, k) => ~IsConfEntry(LogEntry(P, PS, k))

C09_OnlyVotersCampaign ==
    (StartedElection /\ evt.ev # "Campaign") => an \in VotersOf(P.conf)

-----------------------------------------------------------------------------
(* C13  Flow control and well-formed messages                                *)

LeaderStep == SameInc /\ Q.role = "L"

C13_AppendWellFormed ==
    LeaderStep =>
        \A x \in DOMAIN evt.gen :
            LET g == evt.gen[x]
            IN g.ty = "App" =>
                 /\ g.commit <= Q.log.committed
                 /\ ~LogTermErr(Q, QS, g.idx) => LogTerm(Q, QS, g.idx) = g.lt
                 /\ \A y \in DOMAIN g.ents :
                        /\ g.ents[y].i = g.idx + y
                        /\ Retained(Q, QS, g.ents[y].i) => LogEntry(Q, QS, g.ents[y].i) = g.ents[y]

C13_HeartbeatCommit ==
    LeaderStep =>
        \A x \in DOMAIN evt.gen :
            LET g == evt.gen[x]
            IN (g.ty = "HB" /\ g.to \in DOMAIN Q.pr) =>
                   g.commit <= Min(Q.pr[g.to].matched, Q.log.committed)

RECURSIVE SumSize(_)
SumSize(es) == IF es = <<>> THEN 0 ELSE EntrySize(es[1]) + SumSize(Tail(es))
RECURSIVE SumData(_)
SumData(es) == IF es = <<>> THEN 0 ELSE es[1].sz + SumData(Tail(es))

C13_SizeLimit ==
    (LeaderStep /\ ~P.batchAppend /\ ~Q.batchAppend /\ cfg[an].max_size_per_msg # NoLimit) =>
        \A x \in DOMAIN evt.gen :
            LET g == evt.gen[x]
            IN g.ty = "App" => (Len(g.ents) <= 1 \/ SumSize(g.ents) <= cfg[an].max_size_per_msg)

C13_Window ==
    (Acting /\ up[an] /\ Q.role = "L") =>
        \A j \in DOMAIN Q.pr :
            /\ Q.pr[j].ins.count <= Q.pr[j].ins.cap
            /\ (Q.pr[j].state = "R" /\ j # an) =>
                   \A x \in GenTo(j, {"App"}) :
                       HasEntries(evt.gen[x]) =>
                           \E y \in DOMAIN RQ(Q.pr[j].ins) : RQ(Q.pr[j].ins)[y] >= Last(evt.gen[x].ents).i

(* events that cannot legitimately un-pause / leave snapshot state for follower j *)
ResumesFor(j) ==
    \/ (evt.ev = "Deliver" /\ M.from = j)
    \/ (evt.ev \in {"ReportSnap", "Unreachable"} /\ evt.a.j = j)
    \/ evt.ev \in {"Apply", "Advance", "SetKnob"}

C13_ProbeOne ==
    (LeaderStep /\ P.role = "L" /\ P.term = Q.term) =>
        \A j \in DOMAIN P.pr :
            /\ (P.pr[j].state = "P" /\ P.pr[j].paused /\ ~ResumesFor(j)) =>
                   GenTo(j, {"App", "Snap"}) = {}
            \* an acknowledgement that tells nothing new (index <= matched) does not end the wait for the probe's answer
            /\ (P.pr[j].state = "P" /\ P.pr[j].paused /\ IsDeliver("AppResp") /\ M.from = j /\ ~M.rej
                   /\ M.idx <= P.pr[j].matched /\ j \in DOMAIN Q.pr /\ Q.pr[j].state = "P") =>
                   (Q.pr[j].paused /\ GenTo(j, {"App", "Snap"}) = {})

SnapshotEndsFor(j) ==
    \/ (evt.ev = "ReportSnap" /\ evt.a.j = j)
    \/ (evt.ev = "Deliver" /\ M.from = j /\ M.ty = "AppResp" /\ ~M.rej /\ M.idx >= P.pr[j].pendSnap)
    \/ evt.ev \in {"Apply", "Advance"}

C13_NoneWhileSnapshot ==
    (LeaderStep /\ P.role = "L" /\ P.term = Q.term) =>
        \A j \in DOMAIN P.pr :
            (P.pr[j].state = "S" /\ ~SnapshotEndsFor(j)) =>
                /\ GenTo(j, {"App", "Snap"}) = {}
                /\ j \in DOMAIN Q.pr => Q.pr[j].state = "S"

(* payload bytes of own-term entries not yet handed out as committed *)
Outstanding(n, st) ==
    LET ks == {k \in (n.rn.commitSince + 1)..LogLast(n, st) :
                   Retained(n, st, k) /\ LogEntry(n, st, k).t = n.term}
        RECURSIVE Sum(_)
        Sum(S) == IF S = {} THEN 0 ELSE LET k == CHOOSE k \in S : TRUE
                                        IN LogEntry(n, st, k).sz + Sum(S \ {k})
    IN Sum(ks)

C13_UncommittedBudget ==
    (SameInc /\ evt.ev \in {"Propose", "ProposeBatch"} /\ P.role = "L"
        /\ cfg[an].max_uncommitted_size # NoLimit) =>
        LET added == LogLast(Q, QS) - LogLast(P, PS)
            newsz == Outstanding(Q, QS) - Outstanding(P, PS)
        IN /\ (evt.rk = "ok" /\ added > 0 /\ newsz > 0) =>
                  (Outstanding(P, PS) = 0 \/ Outstanding(Q, QS) <= cfg[an].max_uncommitted_size)
           /\ (evt.ev = "Propose" /\ evt.a.p = "" /\ P.lte = 0 /\ an \in DOMAIN P.pr) => evt.rk = "ok"

-----------------------------------------------------------------------------
(* C15  Snapshot install and compaction                                      *)

Installed == SameInc /\ IsDeliver("Snap") /\ Q.log.usnap.i > 0 /\ Q.log.usnap # P.log.usnap

C15_InstallOnlyIf ==
    Installed => /\ M.snap.i >= P.log.committed
                 /\ an \in MembersOf(M.snap.conf)

C15_AfterInstall ==
    Installed => /\ Q.log.usnap.i = M.snap.i /\ Q.log.usnap.t = M.snap.t
                 /\ Q.log.committed = M.snap.i
                 /\ LogLast(Q, QS) = M.snap.i
                 /\ LogTerm(Q, QS, M.snap.i) = M.snap.t
                 /\ Q.conf = M.snap.conf
                 /\ Q.prs = 0

C15_MatchingSnapshotKeepsLog ==
    (SameInc /\ IsDeliver("Snap") /\ P.role = "F" /\ M.term >= P.term /\ P.prs = 0
        /\ M.snap.i >= P.log.committed /\ MatchTerm(P, PS, M.snap.i, M.snap.t)) =>
        /\ Q.log.usnap = P.log.usnap /\ Q.log.uents = P.log.uents /\ Q.log.offset = P.log.offset
        /\ Q.log.committed = Max(P.log.committed, M.snap.i)

C15_SendOnlyIfNeeded ==
    LeaderStep =>
        \A x \in DOMAIN evt.gen :
            LET g == evt.gen[x]
            IN (g.ty = "Snap" /\ g.to \in DOMAIN Q.pr) =>
                 LET pr == Q.pr[g.to]
                 IN /\ pr.active
                    /\ \/ pr.pendReqSnap # 0
                       \/ (g.to \in DOMAIN P.pr /\ P.pr[g.to].pendReqSnap # 0)
                       \/ pr.next < LogFirst(Q, QS)
                       \/ LogTermErr(Q, QS, pr.next - 1)
                    /\ pr.state = "S" /\ pr.pendSnap = g.snap.i

C15_ResumeAfterReport ==
    (SameInc /\ evt.ev = "ReportSnap" /\ P.role = "L" /\ evt.a.j \in DOMAIN P.pr
        /\ P.pr[evt.a.j].state = "S" /\ evt.a.j \in DOMAIN Q.pr) =>
        LET a == P.pr[evt.a.j]
            b == Q.pr[evt.a.j]
        IN /\ b.state = "P" /\ b.paused /\ b.pendSnap = 0 /\ b.pendReqSnap = 0
           /\ b.next = Max(a.matched, IF evt.a.ok THEN a.pendSnap ELSE 0) + 1

(* safety is preserved across an install: the leader of the installing node's term has not been told that the
   node holds entries beyond the snapshot (an install resets the log to the snapshot index; F5) *)
C15_InstallKeepsAcked ==
    Installed =>
        \A ld \in DOMAIN node :
            (up[ld] /\ ld # an /\ node[ld].role = "L" /\ node[ld].term = Q.term /\ an \in DOMAIN node[ld].pr) =>
                node[ld].pr[an].matched <= M.snap.i

(* handling a snapshot message never brings the node down, whatever the snapshot *)
C15_SnapshotNeverCrashes == IsDeliver("Snap") => evt.rk # "panic"

C15_SnapshotState ==
    (IsRdEvent /\ evt.ev = "Ready" /\ evt.rd.snap.i > 0) =>
        LET x == Lookup(gh.smAt, evt.rd.snap.i)
            y == Lookup(gh.confAt, evt.rd.snap.i)
        IN /\ x # 0 => gh.smAt[x].sm = app[an].sm
           /\ app[an].applied = evt.rd.snap.i

-----------------------------------------------------------------------------
(* C16  PreVote + CheckQuorum                                                *)

C16_PreVoteReqInert ==
    (SameInc /\ IsDeliver("PreVote")) => (Q.term = P.term /\ Q.vote = P.vote)

Grants(n) == {j \in DOMAIN n.votes : n.votes[j]}

C16_NoSelfTermBump ==
    (SameInc /\ P.preVote /\ Q.term > P.term) =>
        \/ /\ evt.ev = "Deliver"
           /\ M.term >= Q.term
           /\ M.ty # "PreVote" /\ ~(M.ty = "PreVoteResp" /\ ~M.rej)
        \/ /\ IsDeliver("PreVoteResp") /\ ~M.rej /\ P.role = "P" /\ Q.term = P.term + 1
           /\ QuorumOf(Grants(P) \cup {M.from}, P.conf)
        \/ IsDeliver("TimeoutNow")
        \/ /\ evt.ev \in {"Tick", "Campaign"} /\ Q.term = P.term + 1
           /\ QuorumOf({an}, P.conf)

(* (c) scenario: after a LeaseStart marker the leader L of term T (the maximal term anywhere, no transfer
   pending) and the members M (a majority together with L) exchange heartbeats on schedule; whatever the
   remaining nodes do, L keeps leading T and no member of M changes its term *)
C16_NoDisruption ==
    gh.lease.on =>
        /\ up[gh.lease.leader] /\ node[gh.lease.leader].role = "L" /\ node[gh.lease.leader].term = gh.lease.term
        /\ \A j \in gh.lease.members : up[j] /\ node[j].term = gh.lease.term

-----------------------------------------------------------------------------
(* C17  Leadership transfer                                                  *)

C17_TimeoutNowOnlyWhenCaughtUp ==
    LeaderStep =>
        \A x \in DOMAIN evt.gen :
            LET g == evt.gen[x]
            IN g.ty = "TimeoutNow" =>
                 /\ g.to \in DOMAIN Q.pr
                 /\ Q.pr[g.to].matched = LogLast(Q, QS)
                 /\ g.to = Q.lte

C17_NoProposalsDuringTransfer ==
    (SameInc /\ evt.ev \in ProposeEvents /\ P.role = "L" /\ P.lte # 0) =>
        (evt.rk = "err" /\ LogLast(Q, QS) = LogLast(P, PS))

C17_AbortOnTimeout ==
    (SameInc /\ evt.ev = "Tick" /\ P.role = "L" /\ Q.role = "L" /\ P.lte # 0
        /\ P.ee + 1 >= cfg[an].election_tick) => Q.lte = 0

C17_TargetIsVoter ==
    (Acting /\ up[an] /\ Q.role = "L" /\ Q.lte # 0) => Q.lte \in VotersOf(Q.conf)

TransferTarget == IF evt.ev = "Transfer" THEN evt.a.to ELSE M.from
IsTransferReq == evt.ev = "Transfer" \/ IsDeliver("Transfer")

C17_IgnoreLearnerUnknown ==
    (SameInc /\ IsTransferReq /\ P.role = "L"
        /\ (TransferTarget \notin DOMAIN P.pr \/ TransferTarget \in P.conf.learners)) =>
        (Q.lte = P.lte /\ evt.gen = <<>> /\ Q.ee = P.ee)

C17_SelfOnlyCancels ==
    (SameInc /\ IsTransferReq /\ P.role = "L" /\ TransferTarget = an /\ an \in DOMAIN P.pr) =>
        (Q.lte = 0 /\ evt.gen = <<>>)

-----------------------------------------------------------------------------
(* C20  No panic under contract-abiding use                                  *)

C20_NoPanic == Acting => evt.rk # "panic"

C20_BogusRejected ==
    (Acting /\ evt.ev = "Bogus") => (evt.rk = "err" /\ (pre.up /\ up[an]) => Q = P)

-----------------------------------------------------------------------------
(* C10 / C17 completion: checked at the end of a stabilisation suffix        *)

UpMembers == {j \in gh.members : up[j] /\ j \in MembersOf(node[j].conf)}
Converged ==
    LET Ls == {j \in UpMembers : node[j].role = "L"}
    IN /\ Cardinality(Ls) = 1
       /\ LET ld == CHOOSE j \in Ls : TRUE
          IN \A j \in UpMembers :
                j \in MembersOf(node[ld].conf) =>
                  /\ LogLast(node[j], stor[j]) = LogLast(node[ld], stor[ld])
                  /\ node[j].log.committed = node[ld].log.committed
                  /\ node[j].term = node[ld].term
                  /\ app[j].applied = node[ld].log.committed
                  /\ app[j].sm = app[ld].sm
                  /\ evt.a.probe => app[j].hasProbe

(* at the end of the fault-free suffix: one leader, every running member caught up, and the entry proposed
   during the suffix was accepted, committed and applied everywhere *)
C10_Converged == evt.ev = "StableEnd" => (Converged /\ evt.a.probe)

-----------------------------------------------------------------------------

Chk(name, ok) == IF ok THEN {} ELSE {name}

Violations ==
    Chk("C01.Agree", C01_Agree) \cup Chk("C01.Handed", C01_Handed) \cup Chk("C01.Snapshot", C01_Snapshot)
    \cup Chk("C02.OneLeaderPerTerm", C02_OneLeaderPerTerm) \cup Chk("C02.ElectedByQuorum", C02_ElectedByQuorum)
    \cup Chk("C03.LeaderComplete", C03_LeaderComplete) \cup Chk("C03.GrantOnlyUpToDate", C03_GrantOnlyUpToDate)
    \cup Chk("C04.LeaderOwnTerm", C04_LeaderOwnTerm) \cup Chk("C04.LeaderQuorumDurable", C04_LeaderQuorumDurable)
    \cup Chk("C04.NonLeaderBounded", C04_NonLeaderBounded) \cup Chk("C04.MatchedIsDurable", C04_MatchedIsDurable)
    \cup Chk("C05.LogMatching", C05_LogMatching) \cup Chk("C05.LeaderAppendOnly", C05_LeaderAppendOnly)
    \cup Chk("C05.CommittedImmutable", C05_CommittedImmutable)
    \cup Chk("C06.TermMonotone", C06_TermMonotone) \cup Chk("C06.RestartKeepsPromises", C06_RestartKeepsPromises)
    \cup Chk("C06.VoteOncePerTerm", C06_VoteOncePerTerm) \cup Chk("C06.PersistBeforeSend", C06_PersistBeforeSend)
    \cup Chk("C07.HandOffExact", C07_HandOffExact) \cup Chk("C07.HandOffPersistedOnly", C07_HandOffPersistedOnly)
    \cup Chk("C07.EntriesOnce", C07_EntriesOnce) \cup Chk("C07.HardState", C07_HardState)
    \cup Chk("C07.MustSync", C07_MustSync) \cup Chk("C07.SnapshotAlone", C07_SnapshotAlone)
    \cup Chk("C07.HasReadyExact", C07_HasReadyExact) \cup Chk("C07.ReadyNonEmpty", C07_ReadyNonEmpty)
    \cup Chk("C07.StorageContract", C07_StorageContract)
    \cup Chk("C08.ReadLinearizable", C08_ReadLinearizable) \cup Chk("C08.AnswerNeedsQuorum", C08_AnswerNeedsQuorum)
    \cup Chk("C09.OnePendingConf", C09_OnePendingConf) \cup Chk("C09.ProposalFilter", C09_ProposalFilter)
    \cup Chk("C09.ConfFunctionOfLog", C09_ConfFunctionOfLog)
    \cup Chk("C09.NoCampaignOverUnappliedConf", C09_NoCampaignOverUnappliedConf)
    \cup Chk("C09.OnlyVotersCampaign", C09_OnlyVotersCampaign)
    \cup Chk("C10.Converged", C10_Converged)
    \cup Chk("C13.AppendWellFormed", C13_AppendWellFormed) \cup Chk("C13.HeartbeatCommit", C13_HeartbeatCommit)
    \cup Chk("C13.SizeLimit", C13_SizeLimit) \cup Chk("C13.Window", C13_Window)
    \cup Chk("C13.ProbeOne", C13_ProbeOne) \cup Chk("C13.NoneWhileSnapshot", C13_NoneWhileSnapshot)
    \cup Chk("C13.UncommittedBudget", C13_UncommittedBudget)
    \cup Chk("C15.InstallOnlyIf", C15_InstallOnlyIf) \cup Chk("C15.AfterInstall", C15_AfterInstall)
    \cup Chk("C15.MatchingSnapshotKeepsLog", C15_MatchingSnapshotKeepsLog)
    \cup Chk("C15.SendOnlyIfNeeded", C15_SendOnlyIfNeeded) \cup Chk("C15.ResumeAfterReport", C15_ResumeAfterReport)
    \cup Chk("C15.SnapshotState", C15_SnapshotState)
    \cup Chk("C15.InstallKeepsAcked", C15_InstallKeepsAcked)
    \cup Chk("C15.NoResumeBeforeDone", C13_NoneWhileSnapshot)
    \cup Chk("C15.SnapshotNeverCrashes", C15_SnapshotNeverCrashes)
    \cup Chk("C16.PreVoteReqInert", C16_PreVoteReqInert) \cup Chk("C16.NoSelfTermBump", C16_NoSelfTermBump)
    \cup Chk("C16.NoDisruption", C16_NoDisruption)
    \cup Chk("C17.TimeoutNowOnlyWhenCaughtUp", C17_TimeoutNowOnlyWhenCaughtUp)
    \cup Chk("C17.NoProposalsDuringTransfer", C17_NoProposalsDuringTransfer)
    \cup Chk("C17.AbortOnTimeout", C17_AbortOnTimeout) \cup Chk("C17.TargetIsVoter", C17_TargetIsVoter)
    \cup Chk("C17.IgnoreLearnerUnknown", C17_IgnoreLearnerUnknown) \cup Chk("C17.SelfOnlyCancels", C17_SelfOnlyCancels)
    \cup Chk("C20.NoPanic", C20_NoPanic) \cup Chk("C20.BogusRejected", C20_BogusRejected)

=============================================================================
