------------------------------ MODULE Inflights ------------------------------
(***************************************************************************)
(* src/tracker/inflights.rs in two descriptions:                            *)
(*   F* : the bounded FIFO the property C18 talks about  [q, cap, inc]      *)
(*   R* : the ring buffer as implemented  [start, count, cap, icap, buf]    *)
(* `RAbs` maps the ring to the FIFO; MC_Inflights checks that every         *)
(* operation commutes with it and prints one test vector per transition.    *)
(* Node.tla uses the R* operators (the projected implementation state has   *)
(* exactly this shape).  icap / inc = -1 stands for None.                    *)
(***************************************************************************)
EXTENDS Naturals, Integers, Sequences

None == -1

---------------------------------------------------------------------------
(* FIFO model *)
FNew(cap) == [q |-> <<>>, cap |-> cap, inc |-> None]
FFull(f) == Len(f.q) = f.cap \/ (f.inc # None /\ Len(f.q) >= f.inc)
FAdd(f, x) == [f EXCEPT !.q = Append(@, x)]                  \* precondition ~FFull(f)
RECURSIVE DropLE(_, _)
DropLE(q, x) == IF q # <<>> /\ Head(q) <= x THEN DropLE(Tail(q), x) ELSE q
FDrained(f) == IF f.q = <<>> /\ f.inc # None THEN [f EXCEPT !.cap = f.inc, !.inc = None] ELSE f
FFreeTo(f, x) ==
    IF f.q = <<>> \/ x < Head(f.q) THEN f
    ELSE FDrained([f EXCEPT !.q = DropLE(@, x)])
FFreeFirst(f) == IF f.q = <<>> THEN f ELSE FFreeTo(f, Head(f.q))
FReset(f) == [q |-> <<>>, cap |-> IF f.inc # None THEN f.inc ELSE f.cap, inc |-> None]
FSetCap(f, c) ==
    IF c = f.cap THEN [f EXCEPT !.inc = None]
    ELSE IF c > f.cap THEN [f EXCEPT !.cap = c, !.inc = None]
    ELSE IF f.q = <<>> THEN [f EXCEPT !.cap = c, !.inc = None]
    ELSE [f EXCEPT !.inc = c]

---------------------------------------------------------------------------
(* Ring buffer as implemented; buf is 1-based here (buf[k+1] is buffer[k]) *)
RNew(cap) == [start |-> 0, count |-> 0, cap |-> cap, icap |-> None, buf |-> <<>>]
RFull(r) == r.count = r.cap \/ (r.icap # None /\ r.count >= r.icap)
RAt(r, k) == r.buf[k + 1]
(* logical content: count elements from start, wrapping at cap *)
RQ(r) == [k \in 1..r.count |->
            LET idx == r.start + k - 1 IN RAt(r, IF idx >= r.cap THEN idx - r.cap ELSE idx)]
RAbs(r) == [q |-> RQ(r), cap |-> r.cap, inc |-> r.icap]

(* add: the caller guarantees ~RFull(r); RAddPanics tells when the code would panic/assert *)
RAddNext(r) == LET n == r.start + r.count IN IF n >= r.cap THEN n - r.cap ELSE n
RAddPanics(r) == RFull(r) \/ RAddNext(r) > Len(r.buf)
RAdd(r, x) ==
    LET n == RAddNext(r)
    IN [r EXCEPT !.buf = IF n = Len(r.buf) THEN Append(r.buf, x) ELSE [r.buf EXCEPT ![n + 1] = x],
                 !.count = @ + 1]

RECURSIVE RScan(_, _, _, _)
(* returns <<freed, newStart>> *)
RScan(r, to, i, idx) ==
    IF i >= r.count \/ to < RAt(r, idx) THEN <<i, idx>>
    ELSE LET nidx == IF idx + 1 >= r.cap THEN idx + 1 - r.cap ELSE idx + 1
         IN RScan(r, to, i + 1, nidx)
RFreeTo(r, to) ==
    IF r.count = 0 \/ to < RAt(r, r.start) THEN r
    ELSE LET s == RScan(r, to, 0, r.start)
             r1 == [r EXCEPT !.count = @ - s[1], !.start = s[2]]
         IN IF r1.count = 0 /\ r1.icap # None
            THEN [r1 EXCEPT !.start = 0, !.cap = r1.icap, !.icap = None, !.buf = <<>>]
            ELSE r1
RFreeFirst(r) == IF r.count > 0 THEN RFreeTo(r, RAt(r, r.start)) ELSE r
RReset(r) == [start |-> 0, count |-> 0, cap |-> IF r.icap # None THEN r.icap ELSE r.cap,
              icap |-> None, buf |-> <<>>]
RSetCap(r, c) ==
    IF c = r.cap THEN [r EXCEPT !.icap = None]
    ELSE IF c > r.cap THEN
        IF r.start + r.count <= r.cap THEN [r EXCEPT !.cap = c, !.icap = None]
        ELSE [r EXCEPT !.buf = SubSeq(r.buf, r.start + 1, Len(r.buf))
                               \o SubSeq(r.buf, 1, r.count - (r.cap - r.start)),
                       !.start = 0, !.cap = c, !.icap = None]
    ELSE IF r.count = 0 THEN [r EXCEPT !.cap = c, !.icap = None, !.start = 0, !.buf = <<>>]
    ELSE [r EXCEPT !.icap = c]
RMaybeFreeBuffer(r) == IF r.count = 0 THEN [r EXCEPT !.start = 0, !.buf = <<>>] ELSE r

=============================================================================
