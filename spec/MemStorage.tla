------------------------------ MODULE MemStorage ------------------------------
(***************************************************************************)
(* src/storage.rs MemStorageCore / MemStorage as a sequence model (C19):    *)
(*   a snapshot point (si, st, sconf), a compaction point, contiguous       *)
(*   entries, a hard state and a stored configuration.                      *)
(* Mutators carry their documented preconditions as enabling predicates.    *)
(* Error results: Compacted = -1, Unavailable = -2, OutOfDate = -3.         *)
(***************************************************************************)
EXTENDS Naturals, Integers, Sequences

Compacted == -1
Unavailable == -2
OutOfDate == -3
NoLim == -1

(* m = [si, st, sconf, ents, hs, conf];  ents : Seq([i, t, sz]) contiguous *)
MNew(conf) == [si |-> 0, st |-> 0, ents |-> <<>>, hs |-> [term |-> 0, vote |-> 0, commit |-> 0], conf |-> conf]

MFirst(m) == IF m.ents # <<>> THEN m.ents[1].i ELSE m.si + 1
MLast(m) == IF m.ents # <<>> THEN m.ents[Len(m.ents)].i ELSE m.si
MHas(m, k) == m.ents # <<>> /\ k >= MFirst(m) /\ k <= MLast(m)
MEntry(m, k) == m.ents[k - MFirst(m) + 1]

MTerm(m, k) ==
    IF k = m.si THEN m.st
    ELSE IF k < MFirst(m) THEN Compacted
    ELSE IF k > MLast(m) THEN Unavailable
    ELSE MEntry(m, k).t

ESize(e) == (IF e.t > 0 THEN 2 ELSE 0) + (IF e.i > 0 THEN 2 ELSE 0) + (IF e.sz > 0 THEN 2 + e.sz ELSE 0)
RECURSIVE LimCount(_, _, _, _)
LimCount(es, max, k, size) ==
    IF k > Len(es) THEN Len(es)
    ELSE LET s == size + ESize(es[k]) IN IF k > 1 /\ s > max THEN k - 1 ELSE LimCount(es, max, k + 1, s)
Limit(es, max) == IF Len(es) <= 1 \/ max = NoLim THEN es ELSE SubSeq(es, 1, LimCount(es, max, 1, 0))

(* entries(lo, hi, max); precondition lo < hi <= last + 1 *)
MEntriesPre(m, lo, hi) == lo < hi /\ hi <= MLast(m) + 1
MEntries(m, lo, hi, max) ==
    IF lo < MFirst(m) THEN <<Compacted>>
    ELSE Limit(SubSeq(m.ents, lo - MFirst(m) + 1, hi - MFirst(m)), max)

(* mutators *)
MAppendPre(m, es) == es # <<>> /\ es[1].i >= MFirst(m) /\ es[1].i <= MLast(m) + 1
MAppend(m, es) == [m EXCEPT !.ents = SubSeq(@, 1, es[1].i - MFirst(m)) \o es]

MCompactPre(m, ci) == ci <= MLast(m)        \* never beyond an applied (hence existing) index
MCompact(m, ci) == IF ci <= MFirst(m) THEN m ELSE [m EXCEPT !.ents = SubSeq(@, ci - MFirst(m) + 1, Len(@))]

MApplySnapshotOK(m, i) == MFirst(m) <= i
MApplySnapshot(m, i, t, conf) ==
    IF ~MApplySnapshotOK(m, i) THEN m
    ELSE [m EXCEPT !.si = i, !.st = t, !.ents = <<>>, !.conf = conf,
                   !.hs = [@ EXCEPT !.term = IF @ >= t THEN @ ELSE t, !.commit = i]]

MSetHardState(m, hs) == [m EXCEPT !.hs = hs]
MCommitToPre(m, k) == MHas(m, k)
MCommitTo(m, k) == [m EXCEPT !.hs = [@ EXCEPT !.commit = k, !.term = MEntry(m, k).t]]
MSetConf(m, c) == [m EXCEPT !.conf = c]

(* snapshot(request): built at hs.commit; precondition: the commit index is the snapshot point or a held entry *)
MSnapshotPre(m) == m.hs.commit = m.si \/ MHas(m, m.hs.commit)
MSnapshot(m, req) ==
    LET c == m.hs.commit
        t == IF c = m.si THEN m.st ELSE MEntry(m, c).t
    IN [i |-> IF c < req THEN req ELSE c, t |-> t, conf |-> m.conf]

=============================================================================
