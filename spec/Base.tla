-------------------------------- MODULE Base --------------------------------
(***************************************************************************)
(* Shared vocabulary of the raft-rs specification: value shapes (entries,  *)
(* messages, snapshots, configurations, node records, storage images) and  *)
(* pure helpers over them.  Shapes follow harness/src/view.rs one to one,  *)
(* so that a projected implementation state is a value of the same type as *)
(* a specification state.                                                  *)
(***************************************************************************)
EXTENDS Naturals, Integers, Sequences, FiniteSets, TLC

CONSTANT Ablate                  \* set of mechanism names switched off (always {} except when generating directed schedules)
Ab(x) == x \in Ablate

Nodes == 1..5                    \* universe of node ids (0 = none / invalid id)
NoLimit == -1                    \* u64::MAX (NO_LIMIT) in views

Max(a, b) == IF a >= b THEN a ELSE b
Min(a, b) == IF a <= b THEN a ELSE b
SetMax(S) == IF S = {} THEN 0 ELSE CHOOSE x \in S : \A y \in S : y <= x
SetMin(S) == CHOOSE x \in S : \A y \in S : x <= y
Range(s) == {s[k] : k \in DOMAIN s}
SeqToBag(s) == [x \in Range(s) |-> Cardinality({k \in DOMAIN s : s[k] = x})]
SameBag(a, b) == SeqToBag(a) = SeqToBag(b)
Last(s) == s[Len(s)]
SubSeqFrom(s, k) == IF k > Len(s) THEN <<>> ELSE SubSeq(s, k, Len(s))
Prefix(s, n) == IF n <= 0 THEN <<>> ELSE SubSeq(s, 1, Min(n, Len(s)))

EmptyConf == [voters |-> {}, outgoing |-> {}, learners |-> {}, learnersNext |-> {},
              autoLeave |-> FALSE]
EmptySnap == [i |-> 0, t |-> 0, conf |-> EmptyConf, data |-> ""]
EmptyHS == [term |-> 0, vote |-> 0, commit |-> 0]

IsJoint(c) == c.outgoing # {}
VotersOf(c) == c.voters \cup c.outgoing
MembersOf(c) == c.voters \cup c.outgoing \cup c.learners \cup c.learnersNext

IsConfEntry(e) == e.ty # "N"

(* protobuf size of an entry: exact for index, term < 128 and payload < 126 bytes *)
EntrySize(e) == (IF e.ty # "N" THEN 2 ELSE 0) + (IF e.t > 0 THEN 2 ELSE 0)
                + (IF e.i > 0 THEN 2 ELSE 0) + (IF e.sz > 0 THEN 2 + e.sz ELSE 0)

(* util::limit_size: keep the first entry, then entries while the running total <= max *)
RECURSIVE LimitCount(_, _, _, _)
LimitCount(ents, max, k, size) ==
    IF k > Len(ents) THEN Len(ents)
    ELSE LET sz == size + EntrySize(ents[k])
         IN IF k > 1 /\ sz > max THEN k - 1 ELSE LimitCount(ents, max, k + 1, sz)
LimitSize(ents, max) ==
    IF Len(ents) <= 1 \/ max = NoLimit THEN ents
    ELSE SubSeq(ents, 1, LimitCount(ents, max, 1, 0))

-----------------------------------------------------------------------------
(* Storage image  [hs, conf, ti, tt, ents, snapi, snapt]                    *)

StorFirst(st) == st.ti + 1
StorLast(st) == st.ti + Len(st.ents)
StorHas(st, k) == k > st.ti /\ k <= StorLast(st)
StorEntry(st, k) == st.ents[k - st.ti]
(* Storage::term : 0 stands for the Compacted / Unavailable errors *)
StorTermOK(st, k) == k = st.ti \/ StorHas(st, k)
StorTerm(st, k) == IF k = st.ti THEN st.tt ELSE IF StorHas(st, k) THEN StorEntry(st, k).t ELSE 0

-----------------------------------------------------------------------------
(* RaftLog over (node record n, storage image st)                           *)

HasUSnap(n) == n.log.usnap.i > 0
LogFirst(n, st) == IF HasUSnap(n) THEN n.log.usnap.i + 1 ELSE StorFirst(st)
LogLast(n, st) ==
    IF Len(n.log.uents) > 0 THEN n.log.offset + Len(n.log.uents) - 1
    ELSE IF HasUSnap(n) THEN n.log.usnap.i ELSE StorLast(st)
InUnstable(n, k) == k >= n.log.offset /\ k < n.log.offset + Len(n.log.uents)
(* the entry at k is retained in the logical log *)
Retained(n, st, k) ==
    /\ k >= LogFirst(n, st) /\ k <= LogLast(n, st)
    /\ InUnstable(n, k) \/ (k < n.log.offset /\ StorHas(st, k))
LogEntry(n, st, k) ==
    IF InUnstable(n, k) THEN n.log.uents[k - n.log.offset + 1] ELSE StorEntry(st, k)
(* RaftLog::term : 0 when out of range; TermErr says the storage answered an error *)
LogTerm(n, st, k) ==
    IF k < LogFirst(n, st) - 1 \/ k > LogLast(n, st) THEN 0
    ELSE IF k < n.log.offset
         THEN IF HasUSnap(n) /\ k = n.log.usnap.i THEN n.log.usnap.t ELSE StorTerm(st, k)
         ELSE IF InUnstable(n, k) THEN n.log.uents[k - n.log.offset + 1].t
              ELSE IF HasUSnap(n) /\ k = n.log.usnap.i THEN n.log.usnap.t ELSE StorTerm(st, k)
LogTermErr(n, st, k) ==
    /\ ~(k < LogFirst(n, st) - 1 \/ k > LogLast(n, st))
    /\ ~InUnstable(n, k)
    /\ ~(HasUSnap(n) /\ k = n.log.usnap.i)
    /\ ~StorTermOK(st, k)
LogLastTerm(n, st) == LogTerm(n, st, LogLast(n, st))
MatchTerm(n, st, k, t) == ~LogTermErr(n, st, k) /\ LogTerm(n, st, k) = t
SnapPoint(n, st) == IF HasUSnap(n) THEN n.log.usnap.i ELSE st.ti

HSOf(n) == [term |-> n.term, vote |-> n.vote, commit |-> n.log.committed]

=============================================================================
