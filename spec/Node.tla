-------------------------------- MODULE Node --------------------------------
(***************************************************************************)
(* src/raft.rs as pure operators: every method that mutates `Raft` is an    *)
(* operator from a node record (and the storage image it reads) to a node   *)
(* record, with the case structure and order of effects of the Rust code.   *)
(*                                                                           *)
(*   n  : node record (shape of harness/src/view.rs NodeView, see Trace.tla *)
(*        NodeOf: conf as sets, pr/votes/ro.pending as functions, plus the  *)
(*        flag `pan` set where the code would hit fatal!/assert!/panic!)    *)
(*   st : storage image the node reads through `Storage`                    *)
(*   c  : static configuration (Config knobs that have no setter)           *)
(*   rt : randomized election timeout installed if `reset` runs             *)
(*                                                                           *)
(* Outbound messages are appended to n.msgs exactly like raft.msgs.         *)
(* Iteration over hash maps (the bcast functions) is modelled in ascending id order; *)
(* it only permutes n.msgs, which is compared as a bag.                     *)
(***************************************************************************)
EXTENDS Log, Inflights, Quorum, ConfChange

MsgDefault == [ty |-> "", from |-> 0, to |-> 0, term |-> 0, lt |-> 0, idx |-> 0, ents |-> <<>>,
               commit |-> 0, ct |-> 0, snap |-> EmptySnap, rs |-> 0, rej |-> FALSE, hint |-> 0,
               ctx |-> "", prio |-> 0]
Msg(ty, to) == [MsgDefault EXCEPT !.ty = ty, !.to = to]
VoteTypes == {"Vote", "PreVote", "VoteResp", "PreVoteResp"}
RespOf(ty) == IF ty = "Vote" THEN "VoteResp" ELSE "PreVoteResp"
EmptyEntry == [i |-> 0, t |-> 0, ty |-> "N", p |-> "", tr |-> "", ch |-> <<>>, sz |-> 0]
EmptyFn == [x \in {} |-> 0]
EmptyRO == [queue |-> <<>>, pending |-> EmptyFn]
CtxLen == 3                      \* every read-index context used by the drivers is 3 bytes long

Panic(n) == [n EXCEPT !.pan = TRUE]
L(n) == n.log
Last_(n, st) == LLast(n.log, st)
SetLog(n, lg) == [n EXCEPT !.log = lg]

(* ---------------- RaftCore::send ---------------- *)
Send(n, m0) ==
    LET m1 == IF m0.from = 0 THEN [m0 EXCEPT !.from = n.id] ELSE m0
        isVote == m1.ty \in VoteTypes
        bad == (isVote /\ m1.term = 0) \/ (~isVote /\ m1.term # 0)
        m2 == IF ~isVote /\ m1.ty \notin {"Prop", "ReadIndex"} THEN [m1 EXCEPT !.term = n.term] ELSE m1
        m3 == IF m2.ty \in {"Vote", "PreVote"} THEN [m2 EXCEPT !.prio = n.prio] ELSE m2
    IN IF bad THEN Panic(n) ELSE [n EXCEPT !.msgs = Append(@, m3)]

(* ---------------- Progress ---------------- *)
NewProgress(next, cap) ==
    [matched |-> 0, next |-> next, state |-> "P", paused |-> FALSE, pendSnap |-> 0, pendReqSnap |-> 0,
     active |-> FALSE, ins |-> RNew(cap), cg |-> 0, ci |-> 0]
PrResetState(p, s) == [p EXCEPT !.paused = FALSE, !.pendSnap = 0, !.state = s, !.ins = RReset(@)]
PrReset(p, next) == [p EXCEPT !.matched = IF Ab("ResetClearsMatched") THEN @ ELSE 0, !.next = next,
                              !.state = IF Ab("ResetClearsProgressState") THEN @ ELSE "P", !.paused = FALSE, !.pendSnap = 0,
                              !.pendReqSnap = 0, !.active = FALSE, !.ins = RReset(@)]
PrBecomeProbe(p) ==
    IF p.state = "S" THEN [PrResetState(p, "P") EXCEPT !.next = Max(p.matched + 1, p.pendSnap + 1)]
    ELSE [PrResetState(p, "P") EXCEPT !.next = p.matched + 1]
PrBecomeReplicate(p) == [PrResetState(p, "R") EXCEPT !.next = p.matched + 1]
PrBecomeSnapshot(p, i) == [PrResetState(p, "S") EXCEPT !.pendSnap = i]
PrMaybeUpdate(p, k) ==        \* <<updated?, p'>>
    LET p1 == IF p.matched < k THEN [p EXCEPT !.matched = k, !.paused = FALSE] ELSE p
        p2 == IF p1.next < k + 1 THEN [p1 EXCEPT !.next = k + 1] ELSE p1
    IN <<p.matched < k, p2>>
PrUpdateCommitted(p, ci) == IF ci > p.ci THEN [p EXCEPT !.ci = ci] ELSE p
PrIsPaused(p) == CASE p.state = "P" -> p.paused [] p.state = "R" -> RFull(p.ins) [] OTHER -> TRUE
(* maybe_decr_to(rejected, match_hint, request_snapshot) = <<changed?, p'>> *)
PrMaybeDecrTo(p, rejected, hint, reqSnap) ==
    IF p.state = "R"
    THEN IF rejected < p.matched \/ (rejected = p.matched /\ reqSnap = 0) THEN <<FALSE, p>>
         ELSE IF reqSnap = 0 THEN <<TRUE, [p EXCEPT !.next = p.matched + 1]>>
         ELSE <<TRUE, [p EXCEPT !.pendReqSnap = reqSnap]>>
    ELSE IF (p.next = 0 \/ p.next - 1 # rejected) /\ reqSnap = 0 THEN <<FALSE, p>>
    ELSE LET p1 == IF reqSnap = 0
                   THEN [p EXCEPT !.next = Max(Min(rejected, hint + 1), p.matched + 1)]
                   ELSE IF p.pendReqSnap = 0 THEN [p EXCEPT !.pendReqSnap = reqSnap] ELSE p
         IN <<TRUE, [p1 EXCEPT !.paused = FALSE]>>
(* update_state(last): fatal in Snapshot state or when the window is full *)
PrUpdateStateFatal(p) == p.state = "S" \/ (p.state = "R" /\ (RFull(p.ins) \/ RAddPanics(p.ins)))
PrUpdateState(p, last) ==
    IF p.state = "R" THEN [p EXCEPT !.next = last + 1, !.ins = RAdd(@, last)]
    ELSE [p EXCEPT !.paused = TRUE]

(* ---------------- quorum over the tracker ---------------- *)
Matched(n) == [j \in DOMAIN n.pr |-> n.pr[j].matched]
GroupsOf(n) == [j \in DOMAIN n.pr |-> n.pr[j].cg]
(* majority.rs committed_index with group commit, code shape: voters sorted by acknowledged index
   descending (ties by id), scanned for a second group *)
RECURSIVE SortDesc(_, _)
SortDesc(V, ack) ==
    IF V = {} THEN <<>>
    ELSE LET m == SMax({AckOf(ack, v) : v \in V})
             v == SetMin({x \in V : AckOf(ack, x) = m})
         IN <<v>> \o SortDesc(V \ {v}, ack)
RECURSIVE GCScan(_, _, _, _, _, _)
GCScan(s, k, ack, grp, checked, plain) ==      \* -2: no second group found
    IF k > Len(s) THEN -2
    ELSE LET g == GroupOf(grp, s[k])
         IN IF g = 0 THEN GCScan(s, k + 1, ack, grp, checked, plain)
            ELSE IF checked = 0 THEN GCScan(s, k + 1, ack, grp, g, plain)
            ELSE IF checked = g THEN GCScan(s, k + 1, ack, grp, checked, plain)
            ELSE Min(AckOf(ack, s[k]), plain)
MajGC(V, ack, grp) ==
    IF V = {} THEN Inf
    ELSE LET s == SortDesc(V, ack)
             q == (Cardinality(V) \div 2) + 1
             plain == AckOf(ack, s[q])
             r == GCScan(s, 1, ack, grp, GroupOf(grp, s[q]), plain)
         IN IF r # -2 THEN r
            ELSE IF \A v \in V : GroupOf(grp, v) # 0 THEN plain ELSE AckOf(ack, s[Len(s)])
MaximalCommitted(n) ==
    LET ack == Matched(n)
    IN IF Ab("JointUsesBothHalves") /\ ~n.conf.autoLeave THEN MajCommitted(n.conf.voters, ack)
       ELSE IF ~n.groupCommit THEN JointCommitted(n.conf.voters, n.conf.outgoing, ack)
       ELSE MinInf(MajGC(n.conf.voters, ack, GroupsOf(n)), MajGC(n.conf.outgoing, ack, GroupsOf(n)))

VoteOf(n) == n.votes
TallyResult(n) == JointVote(n.conf.voters, n.conf.outgoing, n.votes)
HasQuorumSet(n, S) == HasQuorum(n.conf.voters, n.conf.outgoing, S)
IsSingleton(n) == (Ab("SingletonChecksOutgoing") \/ n.conf.outgoing = {}) /\ Cardinality(n.conf.voters) = 1

(* ---------------- uncommitted size ---------------- *)
RECURSIVE DataSum(_)
DataSum(es) == IF es = <<>> THEN 0 ELSE es[1].sz + DataSum(Tail(es))
MaybeIncreaseUncommitted(n, c, es) ==       \* <<ok?, usz'>>
    IF c.max_uncommitted_size = NoLimit THEN <<TRUE, n.usz>>
    ELSE LET s == DataSum(es)
         IN IF s = 0 \/ n.usz = 0 \/ s + n.usz <= c.max_uncommitted_size THEN <<TRUE, n.usz + s>>
            ELSE <<FALSE, n.usz>>
RECURSIVE DataSumAfter(_, _)
DataSumAfter(es, tail) ==
    IF es = <<>> THEN 0
    ELSE (IF es[1].i <= tail THEN 0 ELSE es[1].sz) + DataSumAfter(Tail(es), tail)
ReduceUncommitted(n, c, es) ==
    IF n.role # "L" \/ c.max_uncommitted_size = NoLimit \/ es = <<>> THEN n
    ELSE LET s == DataSumAfter(es, n.lti)
         IN [n EXCEPT !.usz = IF s > n.usz THEN 0 ELSE n.usz - s]

(* ---------------- append_entry (leader) ---------------- *)
AppendEntry(n, st, c, es) ==               \* <<ok?, n'>>
    LET inc == MaybeIncreaseUncommitted(n, c, es)
    IN IF ~inc[1] THEN <<FALSE, n>>
       ELSE LET li == Last_(n, st)
                es2 == [k \in 1..Len(es) |-> [es[k] EXCEPT !.t = n.term, !.i = li + k]]
                n1 == [n EXCEPT !.usz = inc[2]]
            IN IF LAppendFatal(n.log, es2) THEN <<TRUE, Panic(n1)>>
               ELSE <<TRUE, SetLog(n1, LAppend(n.log, es2))>>

(* ---------------- sending appends / heartbeats ---------------- *)
IsContinuous(m, ents) == (m.ents = <<>> \/ ents = <<>>) \/ Last(m.ents).i + 1 = ents[1].i
FirstAppTo(msgs, to) ==
    LET S == {k \in DOMAIN msgs : msgs[k].ty = "App" /\ msgs[k].to = to}
    IN IF S = {} THEN 0 ELSE SetMin(S)

(* storage.snapshot(request, to) through RaftLog::snapshot: [ok, snap] *)
LogSnapshot(n, st, req) ==
    IF HasUSnap(n) /\ n.log.usnap.i >= req THEN [ok |-> TRUE, snap |-> n.log.usnap]
    ELSE IF st.snapi > 0 /\ st.snapi >= req
         THEN [ok |-> TRUE, snap |-> [i |-> st.snapi, t |-> st.snapt, conf |-> st.snapconf, data |-> st.snapdata]]
         ELSE [ok |-> FALSE, snap |-> EmptySnap]

(* prepare_send_snapshot: [ok, n, m] *)
PrepareSendSnapshot(n, st, to, m) ==
    LET p == n.pr[to]
    IN IF ~p.active THEN [ok |-> FALSE, n |-> n, m |-> m]
       ELSE LET s == LogSnapshot(n, st, p.pendReqSnap)
            IN IF ~s.ok THEN [ok |-> FALSE, n |-> n, m |-> m]
               ELSE [ok |-> TRUE,
                     n |-> [n EXCEPT !.pr[to] = PrBecomeSnapshot(p, s.snap.i)],
                     m |-> [m EXCEPT !.ty = "Snap", !.snap = s.snap]]

(* maybe_send_append(to, allow_empty) = [sent, n] *)
MaybeSendAppend(n, st, c, to, allowEmpty) ==
    LET p == n.pr[to]
        m0 == Msg("", to)
        snapPath == LET r == PrepareSendSnapshot(n, st, to, m0)
                    IN IF r.ok THEN [sent |-> TRUE, n |-> Send(r.n, r.m)] ELSE [sent |-> FALSE, n |-> n]
    IN IF PrIsPaused(p) THEN [sent |-> FALSE, n |-> n]
       ELSE IF p.pendReqSnap # 0 THEN snapPath
       ELSE LET es == LEntries(n.log, st, p.next, c.max_size_per_msg)
                termErr == LTermErr(n.log, st, p.next - 1)
                term == LTerm(n.log, st, p.next - 1)
            IN IF ~allowEmpty /\ (es.err \/ es.ents = <<>>) THEN [sent |-> FALSE, n |-> n]
               ELSE IF termErr \/ es.err THEN snapPath
               ELSE LET k == FirstAppTo(n.msgs, to)
                        ents == es.ents
                    IN IF n.batchAppend /\ k # 0 /\ (ents = <<>> \/ IsContinuous(n.msgs[k], ents))
                       THEN \* try_batching succeeded
                            LET p1 == IF ents # <<>> THEN PrUpdateState(p, Last(ents).i) ELSE p
                                n1 == [n EXCEPT !.msgs[k] = [@ EXCEPT !.ents = @ \o ents, !.commit = n.log.committed],
                                                !.pr[to] = p1]
                            IN [sent |-> TRUE, n |-> IF ents # <<>> /\ PrUpdateStateFatal(p) THEN Panic(n1) ELSE n1]
                       ELSE LET m == [m0 EXCEPT !.ty = "App", !.idx = p.next - 1, !.lt = term, !.ents = ents,
                                                !.commit = n.log.committed]
                                p1 == IF ents # <<>> THEN PrUpdateState(p, Last(ents).i) ELSE p
                                n1 == Send([n EXCEPT !.pr[to] = p1], m)
                            IN [sent |-> TRUE, n |-> IF ents # <<>> /\ PrUpdateStateFatal(p) THEN Panic(n1) ELSE n1]

SendAppend(n, st, c, to) == MaybeSendAppend(n, st, c, to, TRUE).n
RECURSIVE SendAppendAggressively(_, _, _, _, _)
SendAppendAggressively(n, st, c, to, fuel) ==
    IF fuel = 0 THEN n
    ELSE LET r == MaybeSendAppend(n, st, c, to, FALSE)
         IN IF r.sent /\ ~r.n.pan THEN SendAppendAggressively(r.n, st, c, to, fuel - 1) ELSE r.n

RECURSIVE FoldIds(_, _, _)
(* apply Op(acc, id) over the ids of S in ascending order *)
FoldIds(Op(_, _), acc, S) ==
    IF S = {} THEN acc ELSE LET x == SetMin(S) IN FoldIds(Op, Op(acc, x), S \ {x})

Others(n) == DOMAIN n.pr \ {n.id}
BcastAppend(n, st, c) == LET Op(a, j) == SendAppend(a, st, c, j) IN FoldIds(Op, n, Others(n))
SendHeartbeat(n, to, ctx) ==
    Send(n, [Msg("HB", to) EXCEPT !.commit = IF Ab("HeartbeatCommitCap") THEN n.log.committed
                                              ELSE Min(n.pr[to].matched, n.log.committed), !.ctx = ctx])
LastPendingCtx(n) == IF n.ro.queue = <<>> THEN "" ELSE Last(n.ro.queue)
BcastHeartbeatCtx(n, ctx) == LET Op(a, j) == SendHeartbeat(a, j, ctx) IN FoldIds(Op, n, Others(n))
BcastHeartbeat(n) == BcastHeartbeatCtx(n, LastPendingCtx(n))

(* ---------------- commit ---------------- *)
MaybeCommit(n, st) ==                      \* <<changed?, n'>>
    LET mci == MaximalCommitted(n)
    IN IF mci # Inf /\ (LMaybeCommit(n.log, st, mci, n.term)
                        \/ (Ab("CommitTermCheck") /\ mci > n.log.committed /\ mci <= Last_(n, st)))
       THEN IF LCommitToFatal(n.log, st, mci) THEN <<TRUE, Panic(n)>>
            ELSE LET n1 == SetLog(n, LCommitTo(n.log, mci))
                 IN <<TRUE, IF n.id \in DOMAIN n.pr THEN [n1 EXCEPT !.pr[n.id] = PrUpdateCommitted(@, mci)] ELSE n1>>
       ELSE <<FALSE, n>>
HasPendingConf(n) == n.pci > n.log.applied
ShouldBcastCommit(n) == ~n.skipBcastCommit \/ HasPendingConf(n)

(* ---------------- role changes ---------------- *)
ResetNode(n, st, term, rt) ==
    LET last == Last_(n, st)
        n1 == IF n.term # term THEN [n EXCEPT !.term = term, !.vote = 0] ELSE n
    IN [n1 EXCEPT !.lead = 0, !.rt = rt, !.ee = 0, !.he = 0, !.lte = 0, !.votes = EmptyFn, !.pci = 0,
                  !.ro = EmptyRO, !.prs = 0,
                  !.pr = [j \in DOMAIN n.pr |->
                            IF j = n.id
                            THEN [PrReset(n.pr[j], last + 1) EXCEPT !.matched = n.log.persisted, !.ci = n.log.committed]
                            ELSE PrReset(n.pr[j], last + 1)]]
BecomeFollower(n, st, term, lead, rt) ==
    [ResetNode(n, st, term, rt) EXCEPT !.lead = lead, !.role = "F", !.prs = n.prs, !.log = [@ EXCEPT !.maul = 0]]
BecomeCandidate(n, st, rt) ==
    IF n.role = "L" THEN Panic(n)
    ELSE [ResetNode(n, st, n.term + 1, rt) EXCEPT !.vote = n.id, !.role = "C"]
BecomePreCandidate(n) ==
    IF n.role = "L" THEN Panic(n) ELSE [n EXCEPT !.role = "P", !.votes = EmptyFn, !.lead = 0]
BecomeLeader(n, st, c, rt) ==
    IF n.role = "F" THEN Panic(n)
    ELSE LET n1 == [ResetNode(n, st, n.term, rt) EXCEPT !.lead = n.id, !.role = "L"]
             last == Last_(n1, st)
         IN IF last # n1.log.persisted \/ n.id \notin DOMAIN n1.pr THEN Panic(n1)
            ELSE LET n2 == [n1 EXCEPT !.usz = 0, !.lti = IF Ab("LeaderTailIsLastIndex") THEN n1.log.committed ELSE last, !.pr[n.id] = PrBecomeReplicate(@), !.pci = last]
                     a == AppendEntry(n2, st, c, <<EmptyEntry>>)
                 IN IF ~a[1] THEN Panic(a[2]) ELSE a[2]

(* ---------------- elections ---------------- *)
RecordVote(n, from, v) == IF from \in DOMAIN n.votes THEN n ELSE [n EXCEPT !.votes = (from :> v) @@ @]

RECURSIVE Campaign(_, _, _, _, _)
RECURSIVE Poll(_, _, _, _, _, _)
(* poll = <<result, n'>> *)
Poll(n, st, c, from, vote, rt) ==
    LET n1 == RecordVote(n, from, vote)
        res == TallyResult(n1)
    IN IF res = "Won"
       THEN IF n1.role = "P" THEN <<res, Campaign(n1, st, c, "Election", rt)>>
            ELSE LET n2 == BecomeLeader(n1, st, c, rt)
                 IN <<res, IF n2.pan THEN n2 ELSE BcastAppend(n2, st, c)>>
       ELSE IF res = "Lost" THEN <<res, BecomeFollower(n1, st, n1.term, 0, rt)>>
       ELSE <<res, n1>>
Campaign(n, st, c, kind, rt) ==
    LET n1 == IF kind = "PreElection" THEN BecomePreCandidate(n) ELSE BecomeCandidate(n, st, rt)
        ty == IF kind = "PreElection" THEN "PreVote" ELSE "Vote"
        term == IF kind = "PreElection" THEN n1.term + 1 ELSE n1.term
    IN IF n1.pan THEN n1
       ELSE LET p == Poll(n1, st, c, n.id, TRUE, rt)
            IN IF p[1] = "Won" THEN p[2]
               ELSE LET n2 == p[2]
                        ci == LCommitInfo(n2.log, st)
                        Op(a, j) == Send(a, [Msg(ty, j) EXCEPT !.term = term, !.idx = Last_(n2, st),
                                                               !.lt = LLastTerm(n2.log, st), !.commit = ci[1],
                                                               !.ct = ci[2],
                                                               !.ctx = IF kind = "Transfer" THEN "CampaignTransfer" ELSE ""])
                    IN IF LTermErr(n2.log, st, n2.log.committed) THEN Panic(n2)
                       ELSE FoldIds(Op, n2, VotersOf(n2.conf) \ {n.id})

HasUnappliedConfChanges(n, st, lo, hi) ==     \* scan [lo, hi)
    /\ n.log.applied < n.log.committed
    /\ \E k \in lo..(hi - 1) : LRetained(n.log, st, k) /\ IsConfEntry(LEntry(n.log, st, k))
ScanFatal(n, st, lo, hi) ==
    n.log.applied < n.log.committed /\ lo < hi /\ (lo < LFirst(n.log, st) \/ hi > Last_(n, st) + 1)

Hup(n, st, c, transfer, rt) ==
    IF n.role = "L" THEN n
    \* repair F6: entries below the first index are covered by a persisted, not yet applied snapshot
    ELSE LET lo == IF HasUSnap(n) THEN n.log.usnap.i + 1
                   ELSE IF Ab("HupScanStartsAtFirstIndex") THEN n.log.applied + 1
                   ELSE Max(n.log.applied + 1, LFirst(n.log, st))
             hi == n.log.committed + 1
         IN IF ScanFatal(n, st, lo, hi) THEN Panic(n)
            ELSE IF HasUnappliedConfChanges(n, st, lo, hi) /\ ~Ab("HupChecksUnappliedConf") THEN n
            ELSE IF ~Ab("HupWaitsForPersistOnSelfQuorum") /\ n.log.persisted < Last_(n, st)
                    /\ JointVote(n.conf.voters, n.conf.outgoing, (n.id :> TRUE)) = "Won" THEN n
            ELSE IF transfer THEN Campaign(n, st, c, "Transfer", rt)
            ELSE IF n.preVote THEN Campaign(n, st, c, "PreElection", rt)
            ELSE Campaign(n, st, c, "Election", rt)

MaybeCommitByVote(n, st, m, rt) ==
    IF m.commit = 0 \/ m.ct = 0 THEN n
    ELSE LET lastCommit == n.log.committed
         IN IF m.commit <= lastCommit \/ n.role = "L" THEN n
            ELSE IF ~LMaybeCommit(n.log, st, m.commit, m.ct) THEN n
            ELSE IF LCommitToFatal(n.log, st, m.commit) THEN Panic(n)
            ELSE LET n1 == SetLog(n, LCommitTo(n.log, m.commit))
                 IN IF n1.role \notin {"C", "P"} THEN n1
                    ELSE IF ScanFatal(n1, st, lastCommit + 1, n1.log.committed + 1) THEN Panic(n1)
                    ELSE IF HasUnappliedConfChanges(n1, st, lastCommit + 1, n1.log.committed + 1)
                         THEN BecomeFollower(n1, st, n1.term, 0, rt) ELSE n1

(* ---------------- follower side ---------------- *)
SendRequestSnapshot(n, st) ==
    LET hint == Last_(n, st)
    IN IF LTermErr(n.log, st, hint) THEN Panic(n)
       ELSE Send(n, [Msg("AppResp", n.lead) EXCEPT !.idx = n.log.committed, !.rej = TRUE, !.hint = hint,
                                                    !.rs = n.prs, !.lt = LTerm(n.log, st, hint)])

HandleAppendEntries(n, st, m) ==
    IF n.prs # 0 /\ ~Ab("AppendRefusedWhileSnapshotRequested") THEN SendRequestSnapshot(n, st)
    ELSE IF m.idx < n.log.committed
         THEN Send(n, [Msg("AppResp", m.from) EXCEPT !.idx = n.log.committed, !.commit = n.log.committed])
    ELSE LET r == LMaybeAppend(n.log, st, m.idx, m.lt, m.commit, m.ents)
         IN IF r.ok
            THEN LET n1 == SetLog(n, r.lg)
                 IN IF r.fatal THEN Panic(n1)
                    ELSE Send(n1, [Msg("AppResp", m.from) EXCEPT !.idx = r.lastNew, !.commit = n1.log.committed])
            ELSE LET h == LFindConflictByTerm(n.log, st, Min(m.idx, Last_(n, st)), m.lt)
                 IN IF h[2] = -1 THEN Panic(n)
                    ELSE Send(n, [Msg("AppResp", m.from) EXCEPT !.idx = m.idx, !.rej = TRUE, !.hint = h[1],
                                                                 !.lt = h[2], !.commit = n.log.committed])

HandleHeartbeat(n, st, m) ==
    IF LCommitToFatal(n.log, st, m.commit) THEN Panic(n)
    ELSE LET n1 == SetLog(n, LCommitTo(n.log, m.commit))
         IN IF n1.prs # 0 THEN SendRequestSnapshot(n1, st)
            ELSE Send(n1, [Msg("HBResp", m.from) EXCEPT !.ctx = m.ctx, !.commit = n1.log.committed])

(* tracker rebuilt from a ConfState (confchange::restore), progress created by apply_conf *)
TrackerOf(n) == [conf |-> n.conf, prs |-> DOMAIN n.pr]
InstallTracker(n, t, next, cap) ==
    [n EXCEPT !.conf = t.conf,
              !.pr = [j \in t.prs |-> IF j \in DOMAIN n.pr THEN n.pr[j]
                                       ELSE [NewProgress(next, cap) EXCEPT !.active = TRUE]]]

RECURSIVE AdvanceReads(_, _, _)
(* ReadOnly::advance(ctx): pops the queue up to ctx; returns <<n', statuses>> *)
ReadIdx(q, ctx) == LET S == {k \in DOMAIN q : q[k] = ctx} IN IF S = {} THEN 0 ELSE SetMin(S)
HandleReadyReadIndex(n, req, index) ==     \* req = [from, ctx]
    IF req.from = 0 \/ req.from = n.id
    THEN [n EXCEPT !.readStates = Append(@, [index |-> index, ctx |-> req.ctx])]
    ELSE Send(n, [Msg("ReadIndexResp", req.from) EXCEPT !.idx = index,
                      !.ents = <<[EmptyEntry EXCEPT !.p = req.ctx, !.sz = CtxLen]>>])
AdvanceReads(n, k, upto) ==
    IF k > upto THEN n
    ELSE LET ctx == n.ro.queue[1]
             s == n.ro.pending[ctx]
             n1 == [n EXCEPT !.ro = [queue |-> Tail(@.queue),
                                     pending |-> [x \in DOMAIN @.pending \ {ctx} |-> @.pending[x]]]]
             n2 == HandleReadyReadIndex(n1, [from |-> s.from, ctx |-> ctx], s.index)
         IN AdvanceReads(n2, k + 1, upto)
RecvAckAndAdvance(n, from, ctx) ==
    IF ctx \notin DOMAIN n.ro.pending THEN n
    ELSE LET n1 == [n EXCEPT !.ro.pending[ctx].acks = @ \cup {from}]
         IN IF (IF Ab("ReadAcksAreVoterQuorum")
                THEN Cardinality(n1.ro.pending[ctx].acks) * 2 > Cardinality(VotersOf(n1.conf))
                ELSE HasQuorumSet(n1, n1.ro.pending[ctx].acks))
            THEN AdvanceReads(n1, 1, ReadIdx(n1.ro.queue, ctx)) ELSE n1

PostConfChange(n, st, c) ==
    LET isVoter == n.id \in VotersOf(n.conf)
        n0 == [n EXCEPT !.promotable = isVoter]
    IN IF ~isVoter /\ n0.role = "L" THEN n0
       ELSE IF n0.role # "L" \/ n0.conf.voters = {} THEN n0
       ELSE LET mc == MaybeCommit(n0, st)
                n1 == IF mc[1] THEN (IF mc[2].pan THEN mc[2] ELSE BcastAppend(mc[2], st, c))
                      ELSE LET Op(a, j) == MaybeSendAppend(a, st, c, j, FALSE).n IN FoldIds(Op, n0, Others(n0))
                ctx == LastPendingCtx(n1)
                n2 == IF n1.ro.queue = <<>> THEN n1 ELSE RecvAckAndAdvance(n1, n1.id, ctx)
            IN IF n2.lte # 0 /\ (IF Ab("AbortTransferWhenNotVoter") THEN n2.lte \notin DOMAIN n2.pr ELSE n2.lte \notin VotersOf(n2.conf))
               THEN [n2 EXCEPT !.lte = 0] ELSE n2

(* Raft::apply_conf_change = [ok, n] *)
ApplyConfChange(n, st, c, tr, ch) ==
    LET r == CCApply(TrackerOf(n), tr, ch)
    IN IF ~r.ok THEN [ok |-> FALSE, n |-> n]
       ELSE [ok |-> TRUE, n |-> PostConfChange(InstallTracker(n, r.t, Last_(n, st), c.max_inflight), st, c)]

(* Raft::restore = <<restored?, n'>> *)
RestoreSnapshot(n, st, c, snap, rt) ==
    IF snap.i < n.log.committed /\ ~Ab("RestoreRejectsStale") THEN <<FALSE, n>>
    \* repair F5: a snapshot below the pending request index is not the reply to the request
    ELSE IF n.prs # 0 /\ snap.i < n.prs /\ ~Ab("RestoreRejectsOlderThanRequest") THEN <<FALSE, n>>
    ELSE IF n.role # "F" THEN <<FALSE, BecomeFollower(n, st, n.term + 1, 0, rt)>>
    ELSE IF n.id \notin MembersOf(snap.conf) THEN <<FALSE, n>>
    ELSE IF n.prs = 0 /\ LMatchTerm(n.log, st, snap.i, snap.t)
         THEN <<FALSE, IF LCommitToFatal(n.log, st, snap.i) THEN Panic(n) ELSE SetLog(n, LCommitTo(n.log, snap.i))>>
    ELSE IF LRestoreFatal(n.log, snap) THEN <<FALSE, Panic(n)>>
    ELSE LET n1 == SetLog(n, LRestore(n.log, snap))
             r == Restore(snap.conf)
             n2 == [n1 EXCEPT !.pr = EmptyFn, !.votes = EmptyFn, !.conf = EmptyConf]
         IN IF ~r.ok \/ r.t.conf # snap.conf THEN <<TRUE, Panic(n1)>>
            ELSE LET n3 == PostConfChange(InstallTracker(n2, r.t, snap.i, c.max_inflight), st, c)
                 IN IF n.id \notin DOMAIN n3.pr THEN <<TRUE, Panic(n3)>>
                    ELSE <<TRUE, [n3 EXCEPT !.pr[n.id] = PrMaybeUpdate(@, @.next - 1)[2], !.prs = 0]>>

HandleSnapshot(n, st, c, m, rt) ==
    LET r == RestoreSnapshot(n, st, c, m.snap, rt)
    IN IF r[2].pan THEN r[2]
       ELSE IF r[1] THEN Send(r[2], [Msg("AppResp", m.from) EXCEPT !.idx = Last_(r[2], st)])
       ELSE Send(r[2], [Msg("AppResp", m.from) EXCEPT !.idx = r[2].log.committed])

(* ---------------- leader side ---------------- *)
SendTimeoutNow(n, to) == Send(n, Msg("TimeoutNow", to))

HandleAppendResponse(n, st, c, m) ==
    LET probeIdx == IF m.rej /\ m.lt > 0 THEN LFindConflictByTerm(n.log, st, m.hint, m.lt)[1] ELSE m.hint
    IN IF m.from \notin DOMAIN n.pr THEN n
       ELSE LET p0 == PrUpdateCommitted([n.pr[m.from] EXCEPT !.active = TRUE], m.commit)
            IN IF m.rej
               THEN LET d == PrMaybeDecrTo(p0, m.idx, probeIdx, m.rs)
                    IN IF d[1]
                       THEN LET p1 == IF d[2].state = "R" THEN PrBecomeProbe(d[2]) ELSE d[2]
                            IN SendAppend([n EXCEPT !.pr[m.from] = p1], st, c, m.from)
                       ELSE [n EXCEPT !.pr[m.from] = d[2]]
               ELSE LET oldPaused == PrIsPaused(p0)
                        u == PrMaybeUpdate(p0, m.idx)
                    IN IF ~u[1] THEN [n EXCEPT !.pr[m.from] = u[2]]
                       ELSE LET p1 == u[2]
                                p2 == CASE p1.state = "P" -> PrBecomeReplicate(p1)
                                        [] p1.state = "S" -> IF p1.matched >= (IF Ab("SnapshotCaughtUp") THEN p1.pendReqSnap ELSE p1.pendSnap)
                                                             THEN PrBecomeProbe(p1) ELSE p1
                                        [] OTHER -> [p1 EXCEPT !.ins = RFreeTo(@, m.idx)]
                                n1 == [n EXCEPT !.pr[m.from] = p2]
                                mc == MaybeCommit(n1, st)
                                n2 == IF mc[1]
                                      THEN (IF mc[2].pan THEN mc[2]
                                            ELSE IF ShouldBcastCommit(mc[2]) THEN BcastAppend(mc[2], st, c) ELSE mc[2])
                                      ELSE IF oldPaused THEN SendAppend(n1, st, c, m.from) ELSE n1
                                n3 == IF n2.pan THEN n2 ELSE SendAppendAggressively(n2, st, c, m.from, 64)
                            IN IF ~n3.pan /\ n3.lte = m.from
                                  /\ n3.pr[m.from].matched = (IF Ab("TimeoutNowNeedsWholeLog") THEN n3.log.persisted ELSE Last_(n3, st))
                               THEN SendTimeoutNow(n3, m.from) ELSE n3

HandleHeartbeatResponse(n, st, c, m) ==
    IF m.from \notin DOMAIN n.pr THEN n
    ELSE LET p0 == [PrUpdateCommitted(n.pr[m.from], m.commit) EXCEPT !.active = TRUE, !.paused = FALSE]
             p1 == IF p0.state = "R" /\ RFull(p0.ins) THEN [p0 EXCEPT !.ins = RFreeFirst(@)] ELSE p0
             n1 == [n EXCEPT !.pr[m.from] = p1]
             n2 == IF p1.matched < Last_(n1, st) \/ p1.pendReqSnap # 0 THEN SendAppend(n1, st, c, m.from) ELSE n1
         IN IF m.ctx = "" \/ n2.pan THEN n2 ELSE RecvAckAndAdvance(n2, m.from, m.ctx)

HandleTransferLeader(n, st, c, m) ==
    IF m.from \notin DOMAIN n.pr THEN n
    ELSE IF m.from \in n.conf.learners THEN n
    ELSE IF n.lte = m.from THEN n
    ELSE LET n1 == [n EXCEPT !.lte = 0]
         IN IF m.from = n.id THEN n1
            ELSE LET n2 == [n1 EXCEPT !.ee = 0, !.lte = m.from]
                 IN IF n2.pr[m.from].matched = (IF Ab("TimeoutNowNeedsWholeLog") THEN n2.log.persisted ELSE Last_(n2, st))
                    THEN SendTimeoutNow(n2, m.from)
                    ELSE SendAppend(n2, st, c, m.from)

HandleSnapshotStatus(n, m) ==
    IF m.from \notin DOMAIN n.pr \/ n.pr[m.from].state # "S" THEN n
    ELSE LET p == n.pr[m.from]
             p1 == IF m.rej THEN PrBecomeProbe([p EXCEPT !.pendSnap = 0]) ELSE PrBecomeProbe(p)
         IN [n EXCEPT !.pr[m.from] = [p1 EXCEPT !.paused = TRUE, !.pendReqSnap = 0]]

HandleUnreachable(n, m) ==
    IF m.from \notin DOMAIN n.pr THEN n
    ELSE IF n.pr[m.from].state = "R" THEN [n EXCEPT !.pr[m.from] = PrBecomeProbe(@)] ELSE n

QuorumRecentlyActive(n) ==          \* <<active?, n'>>
    LET act == {j \in DOMAIN n.pr : j = n.id \/ n.pr[j].active}
    IN <<HasQuorumSet(n, act),
         [n EXCEPT !.pr = [j \in DOMAIN n.pr |-> [n.pr[j] EXCEPT !.active = (j = n.id)]]]>>

(* the proposal filter of step_leader: entries neutralised one by one, pci updated *)
RECURSIVE FilterProposal(_, _, _, _, _)
FilterProposal(n, st, es, k, acc) ==      \* <<n', entries'>>
    IF k > Len(es) THEN <<n, acc>>
    ELSE LET e == es[k]
         IN IF ~IsConfEntry(e) THEN FilterProposal(n, st, es, k + 1, Append(acc, e))
            ELSE LET joint == IsJoint(n.conf)
                     leave == e.ch = <<>> /\ e.ty = "C2"
                     refuse == ~Ab("ProposalConfFilter") /\ (HasPendingConf(n) \/ (joint /\ ~leave) \/ (~joint /\ leave))
                 IN IF refuse THEN FilterProposal(n, st, es, k + 1, Append(acc, EmptyEntry))
                    ELSE FilterProposal([n EXCEPT !.pci = Last_(n, st) + (IF Ab("PendingConfIndexPerEntry") THEN 1 ELSE k)],
                                        st, es, k + 1, Append(acc, e))

(* step_leader = [n, err] *)
StepLeader(n, st, c, m, rt) ==
    CASE m.ty = "Beat" -> [n |-> BcastHeartbeat(n), err |-> FALSE]
      [] m.ty = "CheckQuorum" ->
            LET q == QuorumRecentlyActive(n)
            IN [n |-> IF q[1] THEN q[2] ELSE BecomeFollower(q[2], st, n.term, 0, rt), err |-> FALSE]
      [] m.ty = "Prop" ->
            IF m.ents = <<>> THEN [n |-> Panic(n), err |-> FALSE]
            ELSE IF n.id \notin DOMAIN n.pr \/ n.lte # 0 THEN [n |-> n, err |-> TRUE]
            ELSE LET f == FilterProposal(n, st, m.ents, 1, <<>>)
                     a == AppendEntry(f[1], st, c, f[2])
                     a2 == IF Ab("SelfMatchOnPersistOnly") /\ a[1] /\ ~a[2].pan /\ n.id \in DOMAIN a[2].pr
                           THEN LET x == [a[2] EXCEPT !.pr[n.id] = PrMaybeUpdate(@, Last_(a[2], st))[2]]
                                    mc == MaybeCommit(x, st)
                                IN mc[2]
                           ELSE a[2]
                 IN IF ~a[1] THEN [n |-> f[1], err |-> TRUE]
                    ELSE [n |-> IF a2.pan THEN a2 ELSE BcastAppend(a2, st, c), err |-> FALSE]
      [] m.ty = "ReadIndex" ->
            LET ctx == m.ents[1].p
                req == [from |-> m.from, ctx |-> ctx]
            IN IF LTermErr(n.log, st, n.log.committed) \/ LTerm(n.log, st, n.log.committed) # n.term
               THEN [n |-> n, err |-> FALSE]
               ELSE IF IsSingleton(n) /\ n.promotable THEN [n |-> HandleReadyReadIndex(n, req, n.log.committed), err |-> FALSE]
               \* ReadOnlyOption::LeaseBased: the leader trusts its lease and answers with its commit index at once
               ELSE IF c.lease_read THEN [n |-> HandleReadyReadIndex(n, req, n.log.committed), err |-> FALSE]
               ELSE LET n1 == IF ctx \in DOMAIN n.ro.pending THEN n
                              ELSE [n EXCEPT !.ro = [queue |-> Append(@.queue, ctx),
                                                     pending |-> (ctx :> [from |-> m.from, index |-> n.log.committed,
                                                                          acks |-> {n.id}]) @@ @.pending]]
                    IN [n |-> BcastHeartbeatCtx(n1, ctx), err |-> FALSE]
      [] m.ty = "AppResp" -> [n |-> HandleAppendResponse(n, st, c, m), err |-> FALSE]
      [] m.ty = "HBResp" -> [n |-> HandleHeartbeatResponse(n, st, c, m), err |-> FALSE]
      [] m.ty = "SnapStatus" -> [n |-> HandleSnapshotStatus(n, m), err |-> FALSE]
      [] m.ty = "Unreachable" -> [n |-> HandleUnreachable(n, m), err |-> FALSE]
      [] m.ty = "Transfer" -> [n |-> HandleTransferLeader(n, st, c, m), err |-> FALSE]
      [] OTHER -> [n |-> n, err |-> FALSE]

StepCandidate(n, st, c, m, rt) ==
    CASE m.ty = "Prop" -> [n |-> n, err |-> TRUE]
      [] m.ty = "App" -> [n |-> HandleAppendEntries(BecomeFollower(n, st, m.term, m.from, rt), st, m), err |-> FALSE]
      [] m.ty = "HB" -> [n |-> HandleHeartbeat(BecomeFollower(n, st, m.term, m.from, rt), st, m), err |-> FALSE]
      [] m.ty = "Snap" -> [n |-> HandleSnapshot(BecomeFollower(n, st, m.term, m.from, rt), st, c, m, rt), err |-> FALSE]
      [] m.ty \in {"PreVoteResp", "VoteResp"} ->
            IF (n.role = "P" /\ m.ty # "PreVoteResp")
               \/ (n.role = "C" /\ m.ty # "VoteResp" /\ ~Ab("CandidateIgnoresPreVoteResp"))
            THEN [n |-> n, err |-> FALSE]
            ELSE LET p == Poll(n, st, c, m.from, ~m.rej, rt)
                 IN [n |-> IF p[2].pan THEN p[2] ELSE MaybeCommitByVote(p[2], st, m, rt), err |-> FALSE]
      [] OTHER -> [n |-> n, err |-> FALSE]

StepFollower(n, st, c, m, rt) ==
    CASE m.ty = "Prop" ->
            IF n.lead = 0 \/ c.disable_proposal_forwarding THEN [n |-> n, err |-> TRUE]
            ELSE [n |-> Send(n, [m EXCEPT !.to = n.lead]), err |-> FALSE]
      [] m.ty = "App" -> [n |-> HandleAppendEntries([n EXCEPT !.ee = 0, !.lead = m.from], st, m), err |-> FALSE]
      [] m.ty = "HB" -> [n |-> HandleHeartbeat([n EXCEPT !.ee = 0, !.lead = m.from], st, m), err |-> FALSE]
      [] m.ty = "Snap" -> [n |-> HandleSnapshot([n EXCEPT !.ee = 0, !.lead = m.from], st, c, m, rt), err |-> FALSE]
      [] m.ty = "Transfer" ->
            [n |-> IF n.lead = 0 THEN n ELSE Send(n, [m EXCEPT !.to = n.lead]), err |-> FALSE]
      [] m.ty = "TimeoutNow" -> [n |-> IF n.promotable \/ (Ab("TimeoutNowNeedsPromotable") /\ n.id \in DOMAIN n.pr)
                                        THEN Hup(n, st, c, TRUE, rt) ELSE n, err |-> FALSE]
      [] m.ty = "ReadIndex" ->
            [n |-> IF n.lead = 0 THEN n ELSE Send(n, [m EXCEPT !.to = n.lead]), err |-> FALSE]
      [] m.ty = "ReadIndexResp" ->
            IF Len(m.ents) # 1 THEN [n |-> n, err |-> FALSE]
            ELSE LET n1 == [n EXCEPT !.readStates = Append(@, [index |-> m.idx, ctx |-> m.ents[1].p])]
                 IN [n |-> IF LMaybeCommit(n1.log, st, m.idx, m.term) \/ (Ab("ReadIndexRespChecksLog") /\ m.idx > n1.log.committed)
                           THEN (IF LCommitToFatal(n1.log, st, m.idx) THEN Panic(n1)
                                 ELSE SetLog(n1, LCommitTo(n1.log, m.idx)))
                           ELSE n1,
                     err |-> FALSE]
      [] OTHER -> [n |-> n, err |-> FALSE]

(* the part of Raft::step after the term checks *)
StepInner(n, st, c, m, rt) ==
    IF m.ty = "Hup" THEN [n |-> Hup(n, st, c, FALSE, rt), err |-> FALSE]
    ELSE IF m.ty \in {"Vote", "PreVote"}
    THEN LET transfer == m.ctx = "CampaignTransfer"
             canVote == \/ (Ab("TransferRespectsCastVote") /\ transfer /\ m.ty = "Vote")
                        \/ n.vote = m.from
                        \/ (n.vote = 0 /\ n.lead = 0)
                        \/ (m.ty = "PreVote" /\ m.term > n.term)
             lastTermErr == LTermErr(n.log, st, Last_(n, st))
         IN IF lastTermErr THEN [n |-> Panic(n), err |-> FALSE]
            ELSE IF canVote /\ (LIsUpToDate(n.log, st, m.idx, m.lt) \/ (Ab("TransferVoteUpToDate") /\ transfer))
                    /\ (m.idx > Last_(n, st) \/ n.prio <= m.prio)
            THEN LET n1 == Send(n, [Msg(RespOf(m.ty), m.from) EXCEPT !.term = m.term])
                 IN [n |-> IF m.ty = "Vote" THEN [n1 EXCEPT !.ee = 0, !.vote = m.from] ELSE n1, err |-> FALSE]
            ELSE IF LTermErr(n.log, st, n.log.committed) THEN [n |-> Panic(n), err |-> FALSE]
            ELSE LET ci == LCommitInfo(n.log, st)
                     n1 == Send(n, [Msg(RespOf(m.ty), m.from) EXCEPT !.rej = TRUE, !.term = n.term,
                                                                      !.commit = ci[1], !.ct = ci[2]])
                 IN [n |-> MaybeCommitByVote(n1, st, m, rt), err |-> FALSE]
    ELSE CASE n.role \in {"P", "C"} -> StepCandidate(n, st, c, m, rt)
           [] n.role = "F" -> StepFollower(n, st, c, m, rt)
           [] OTHER -> StepLeader(n, st, c, m, rt)

(* Raft::step = [n, err] *)
Step(n, st, c, m, rt) ==
    IF m.term = 0 THEN StepInner(n, st, c, m, rt)
    ELSE IF m.term > n.term
    THEN LET force == m.ctx = "CampaignTransfer"
             inLease == n.checkQuorum /\ n.lead # 0 /\ n.ee < c.election_tick
                        /\ ~(Ab("LeaderLeaseCoversPreVote") /\ n.role = "L" /\ m.ty = "PreVote")
         IN IF m.ty \in {"Vote", "PreVote"} /\ ~force /\ inLease THEN [n |-> n, err |-> FALSE]
            ELSE IF m.ty = "PreVote" \/ (m.ty = "PreVoteResp" /\ ~m.rej /\ (~Ab("PreVoteGrantNeverBumpsTerm") \/ n.role = "P"))
                 THEN StepInner(n, st, c, m, rt)
            ELSE StepInner(BecomeFollower(n, st, m.term, IF m.ty \in {"App", "HB", "Snap"} THEN m.from ELSE 0, rt),
                           st, c, m, rt)
    ELSE IF m.term < n.term
    THEN IF (n.checkQuorum \/ n.preVote) /\ m.ty \in {"HB", "App"}
         THEN [n |-> Send(n, Msg("AppResp", m.from)), err |-> FALSE]
         ELSE IF m.ty = "PreVote"
         THEN [n |-> Send(n, [Msg("PreVoteResp", m.from) EXCEPT !.term = n.term, !.rej = TRUE]), err |-> FALSE]
         ELSE [n |-> n, err |-> FALSE]
    ELSE StepInner(n, st, c, m, rt)

(* ---------------- ticks ---------------- *)
Tick(n, st, c, rt) ==
    IF n.role # "L"
    THEN LET n1 == [n EXCEPT !.ee = @ + 1]
         IN IF n1.ee < n1.rt \/ ~n1.promotable THEN n1
            ELSE Step([n1 EXCEPT !.ee = 0], st, c, [Msg("Hup", 0) EXCEPT !.from = n.id], rt).n
    ELSE LET n1 == [n EXCEPT !.he = @ + 1, !.ee = @ + 1]
             n2 == IF n1.ee >= c.election_tick
                   THEN LET a == [n1 EXCEPT !.ee = 0]
                            b == IF a.checkQuorum THEN Step(a, st, c, [Msg("CheckQuorum", 0) EXCEPT !.from = n.id], rt).n ELSE a
                        IN IF b.role = "L" /\ b.lte # 0 /\ ~(Ab("TransferTimeoutAlwaysChecked") /\ a.checkQuorum)
                           THEN [b EXCEPT !.lte = 0] ELSE b
                   ELSE n1
         IN IF n2.role # "L" THEN n2
            ELSE IF n2.he >= c.heartbeat_tick
                 THEN Step([n2 EXCEPT !.he = 0], st, c, [Msg("Beat", 0) EXCEPT !.from = n.id], rt).n
                 ELSE n2

(* ---------------- persistence / apply notifications ---------------- *)
OnPersistEntries(n, st, c, index, term) ==
    LET lg == LMaybePersist(n.log, st, index, term)
        n1 == SetLog(n, lg)
    IN IF lg # n.log /\ n1.role = "L"
       THEN IF n.id \notin DOMAIN n1.pr THEN n1       \* a removed leader has no progress of its own
            ELSE LET u == PrMaybeUpdate(n1.pr[n.id], index)
                     n2 == [n1 EXCEPT !.pr[n.id] = u[2]]
                 IN IF ~u[1] THEN n2
                    ELSE LET mc == MaybeCommit(n2, st)
                         IN IF mc[1] /\ ~mc[2].pan /\ ShouldBcastCommit(mc[2]) THEN BcastAppend(mc[2], st, c) ELSE mc[2]
       ELSE n1
OnPersistSnap(n, index) ==
    IF LMaybePersistSnapFatal(n.log, index) THEN Panic(n) ELSE SetLog(n, LMaybePersistSnap(n.log, index))

CommitApply(n, st, c, applied) ==
    IF LAppliedToFatal(n.log, applied) THEN Panic(n)
    ELSE LET old == n.log.applied
             n1 == SetLog(n, LAppliedTo(n.log, applied))
         IN IF n1.conf.autoLeave /\ old <= n1.pci /\ applied >= n1.pci /\ n1.role = "L"
            THEN LET a == AppendEntry(n1, st, c, <<[EmptyEntry EXCEPT !.ty = "C2", !.tr = "A"]>>)
                 IN IF ~a[1] THEN Panic(a[2]) ELSE [a[2] EXCEPT !.pci = Last_(a[2], st)]
            ELSE n1

=============================================================================
