CONSTANTS
  Ablate = {}
SPECIFICATION TraceSpec
POSTCONDITION TraceDone
CHECK_DEADLOCK FALSE
