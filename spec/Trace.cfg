SPECIFICATION TraceSpec
POSTCONDITION TraceDone
CHECK_DEADLOCK FALSE
