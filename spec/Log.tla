--------------------------------- MODULE Log ---------------------------------
(***************************************************************************)
(* src/raft_log.rs + src/log_unstable.rs over a storage image (Base.tla).   *)
(* lg = [offset, uents, usnap, committed, persisted, applied, maul]         *)
(* st = storage image [hs, conf, ti, tt, ents, snapi, snapt]                *)
(* Every mutator returns the new lg (the storage is written only by the     *)
(* application).  `*Fatal` predicates say when the code would hit one of    *)
(* its fatal!/assert! checks; callers turn that into the `panicked` flag.   *)
(* Query results use Compacted = -1 for the error where it can occur.       *)
(***************************************************************************)
EXTENDS Base

Compacted == -1

W(lg) == [log |-> lg]                      \* view lg as a node record for the Base helpers
LFirst(lg, st) == LogFirst(W(lg), st)
LLast(lg, st) == LogLast(W(lg), st)
LTerm(lg, st, k) == LogTerm(W(lg), st, k)          \* RaftLog::term, 0 outside [first-1, last]
LTermErr(lg, st, k) == LogTermErr(W(lg), st, k)    \* ... is an Err(Compacted/Unavailable)
LMatchTerm(lg, st, k, t) == MatchTerm(W(lg), st, k, t)
LLastTerm(lg, st) == LTerm(lg, st, LLast(lg, st))
LRetained(lg, st, k) == Retained(W(lg), st, k)
LEntry(lg, st, k) == LogEntry(W(lg), st, k)
LHasUSnap(lg) == lg.usnap.i > 0

LIsUpToDate(lg, st, lasti, term) ==
    term > LLastTerm(lg, st) \/ (term = LLastTerm(lg, st) /\ lasti >= LLast(lg, st))

(* find_conflict: first entry whose (index, term) is not matched; 0 if none *)
RECURSIVE LFindConflictFrom(_, _, _, _)
LFindConflictFrom(lg, st, ents, k) ==
    IF k > Len(ents) THEN 0
    ELSE IF ~LMatchTerm(lg, st, ents[k].i, ents[k].t) THEN ents[k].i
         ELSE LFindConflictFrom(lg, st, ents, k + 1)
LFindConflict(lg, st, ents) == LFindConflictFrom(lg, st, ents, 1)

(* find_conflict_by_term(index, term) = <<index', term'>> ; term' = -1 stands for None *)
RECURSIVE LFCBT(_, _, _, _)
LFCBT(lg, st, ci, term) ==
    IF LTermErr(lg, st, ci) THEN <<ci, -1>>
    ELSE LET t == LTerm(lg, st, ci)
         IN IF t > term THEN LFCBT(lg, st, ci - 1, term) ELSE <<ci, t>>
LFindConflictByTerm(lg, st, index, term) ==
    IF index > LLast(lg, st) THEN <<index, -1>> ELSE LFCBT(lg, st, index, term)

(* ---- unstable ---- *)
UTruncateAndAppend(lg, ents) ==
    LET after == ents[1].i
    IN IF after = lg.offset + Len(lg.uents) THEN [lg EXCEPT !.uents = @ \o ents]
       ELSE IF after <= lg.offset THEN [lg EXCEPT !.offset = after, !.uents = ents]
       \* (a gap, after > offset + Len, is excluded for well-formed appends; the clamp only keeps the operator total
       \*  when a recorded execution hands it a malformed one)
       ELSE [lg EXCEPT !.uents = SubSeq(@, 1, IF after - lg.offset <= Len(@) THEN after - lg.offset ELSE Len(@)) \o ents]

(* ---- mutators ---- *)
LAppendFatal(lg, ents) == ents # <<>> /\ ents[1].i - 1 < lg.committed
LAppend(lg, ents) == IF ents = <<>> THEN lg ELSE UTruncateAndAppend(lg, ents)

LCommitToFatal(lg, st, c) == c > lg.committed /\ LLast(lg, st) < c
LCommitTo(lg, c) == IF lg.committed >= c THEN lg ELSE [lg EXCEPT !.committed = c]

(* maybe_append: [ok, conflict, lastNew, lg, fatal] *)
LMaybeAppend(lg, st, idx, term, committed, ents) ==
    IF ~LMatchTerm(lg, st, idx, term)
    THEN [ok |-> FALSE, conflict |-> 0, lastNew |-> 0, lg |-> lg, fatal |-> FALSE]
    ELSE LET ci == LFindConflict(lg, st, ents)
             lastNew == idx + Len(ents)
             lg1 == IF ci = 0 \/ ci <= lg.committed THEN lg
                    ELSE LET a == LAppend(lg, SubSeqFrom(ents, ci - idx))
                         IN IF a.persisted > ci - 1 THEN [a EXCEPT !.persisted = ci - 1] ELSE a
             c == Min(committed, lastNew)
         IN [ok |-> TRUE, conflict |-> ci, lastNew |-> lastNew,
             lg |-> LCommitTo(lg1, c),
             fatal |-> (ci # 0 /\ ci <= lg.committed) \/ LCommitToFatal(lg1, st, c)]

LMaybeCommit(lg, st, maxIndex, term) ==
    maxIndex > lg.committed /\ ~LTermErr(lg, st, maxIndex) /\ LTerm(lg, st, maxIndex) = term

\* repair F7: reporting the recorded applied index again is a no-op (applied may be ahead of committed after a restart)
LAppliedToFatal(lg, idx) == idx # 0 /\ (Ab("AppliedToChecksNoOp") \/ idx # lg.applied) /\ (idx > lg.committed \/ idx < lg.applied)
LAppliedTo(lg, idx) == IF idx = 0 THEN lg ELSE [lg EXCEPT !.applied = idx]

LStableEntriesFatal(lg, index, term) ==
    \/ LHasUSnap(lg)
    \/ lg.uents = <<>>
    \/ Last(lg.uents).i # index \/ Last(lg.uents).t # term
LStableEntries(lg, index, term) == [lg EXCEPT !.offset = index + 1, !.uents = <<>>]
LStableSnapFatal(lg, index) == ~LHasUSnap(lg) \/ lg.usnap.i # index
LStableSnap(lg) == [lg EXCEPT !.usnap = EmptySnap]

LMaybePersist(lg, st, index, term) ==
    LET fui == IF LHasUSnap(lg) THEN lg.usnap.i ELSE lg.offset
    IN IF index > lg.persisted /\ (index < fui \/ (Ab("MaybePersistBelowFirstUpdate") /\ index = fui))
          /\ StorTermOK(st, index) /\ StorTerm(st, index) = term
       THEN [lg EXCEPT !.persisted = index] ELSE lg
LMaybePersistSnapFatal(lg, index) == index > lg.persisted /\ (index > lg.committed \/ index >= lg.offset)
LMaybePersistSnap(lg, index) == IF index > lg.persisted THEN [lg EXCEPT !.persisted = index] ELSE lg

LRestoreFatal(lg, snap) == snap.i < lg.committed
LRestore(lg, snap) ==
    [lg EXCEPT !.persisted = IF @ > lg.committed THEN lg.committed ELSE @,
               !.committed = snap.i,
               !.uents = <<>>, !.offset = snap.i + 1, !.usnap = snap]

(* ---- reads ---- *)
(* slice(lo, hi, max) = [err |-> Compacted?, ents |-> entries].  Precondition lo <= hi <= last + 1. *)
LSliceFatal(lg, st, lo, hi) == lo > hi \/ (lo >= LFirst(lg, st) /\ hi > LLast(lg, st) + 1)
SliceOK(es) == [err |-> FALSE, ents |-> es]
SliceCompacted == [err |-> TRUE, ents |-> <<>>]
LSlice(lg, st, lo, hi, max) ==
    IF lo < LFirst(lg, st) THEN SliceCompacted
    ELSE IF lo = hi THEN SliceOK(<<>>)
    ELSE LET uh == Min(hi, lg.offset)
             fromStor == IF lo < lg.offset
                         THEN LimitSize(SubSeq(st.ents, lo - st.ti, uh - 1 - st.ti), max) ELSE <<>>
             short == lo < lg.offset /\ Len(fromStor) < uh - lo
             fromUnst == IF hi > lg.offset /\ ~short
                         THEN SubSeq(lg.uents, Max(lo, lg.offset) - lg.offset + 1, hi - lg.offset) ELSE <<>>
         IN IF lo < lg.offset /\ lo < StorFirst(st) THEN SliceCompacted
            ELSE IF short THEN SliceOK(fromStor) ELSE SliceOK(LimitSize(fromStor \o fromUnst, max))
LEntries(lg, st, idx, max) ==
    IF idx > LLast(lg, st) THEN SliceOK(<<>>) ELSE LSlice(lg, st, idx, LLast(lg, st) + 1, max)

LApplyBound(lg) == IF lg.maul = NoLimit \/ Ab("HandOffBoundedByPersisted") THEN lg.committed
                   ELSE Min(lg.committed, lg.persisted + lg.maul)
LHasNextEntriesSince(lg, st, since) == LApplyBound(lg) + 1 > Max(since + 1, LFirst(lg, st))
LNextEntriesSince(lg, st, since, max) ==
    IF LHasNextEntriesSince(lg, st, since)
    THEN LSlice(lg, st, Max(since + 1, LFirst(lg, st)), LApplyBound(lg) + 1, max).ents ELSE <<>>

LCommitInfo(lg, st) == <<lg.committed, LTerm(lg, st, lg.committed)>>

-----------------------------------------------------------------------------
(* The plain sequence model of C14: a boundary (index, term) followed by     *)
(* contiguous entries; LAbs maps the composite log onto it.                   *)
LAbs(lg, st) ==
    LET f == LFirst(lg, st)
        l == LLast(lg, st)
    IN [si |-> f - 1,
        st |-> IF LTermErr(lg, st, f - 1) THEN -1 ELSE LTerm(lg, st, f - 1),
        ents |-> [k \in 1..(l - f + 1) |-> LEntry(lg, st, f + k - 1)]]
ALast(a) == a.si + Len(a.ents)
ATerm(a, k) == IF k < a.si \/ k > ALast(a) THEN 0 ELSE IF k = a.si THEN a.st ELSE a.ents[k - a.si].t
ASlice(a, lo, hi) == SubSeq(a.ents, lo - a.si, hi - 1 - a.si)

=============================================================================
