------------------------------- MODULE RaftRs -------------------------------
(***************************************************************************)
(* A cluster of raft-rs RawNodes, the application that drives each of them   *)
(* according to the documented Ready/advance contract (DESIGN.md 2.2), its   *)
(* storage (write cache `stor`, durable image `dur`), the network (a bag)    *)
(* and the fault model (loss, duplication, reordering, crash, restart).      *)
(* One action = one public RawNode call or one application-side step; the    *)
(* node-local effect of every call is the corresponding operator of          *)
(* Node.tla / RawNodeOps.tla.  Actions mirror harness/src/sim.rs one to one  *)
(* (the `Choice` enum), so every behaviour is an executable schedule.        *)
(***************************************************************************)
EXTENDS Props, RawNodeOps, Bags

CONSTANTS
    Ids,            \* node ids of this cluster
    InitVoters,     \* initial voters
    InitLearners,   \* initial learners
    Knobs,          \* function id -> static configuration record (harness Knobs)
    Timeouts        \* function id -> set of randomized election timeouts the node may draw

VARIABLES net,      \* bag of in-flight messages
          rdi,      \* per node: what commit_ready needs from the outstanding Ready
          h,        \* history of choices (the schedule); excluded from the VIEW
          bad       \* names of property predicates violated on the way here

vars == <<pvars, net, rdi, h, bad>>

-----------------------------------------------------------------------------
(* application state  app[i] *)
NoBatch == [number |-> 0, snap |-> EmptySnap, ents |-> <<>>, hasHS |-> FALSE, hs |-> EmptyHS]
AppInit == [outstanding |-> 0, pending |-> <<>>, held |-> <<>>, lastTaken |-> 0, lastDurable |-> 0,
            lastNotified |-> 0, queue |-> <<>>, applied |-> 0, sm |-> <<>>, confHist |-> <<>>, reports |-> {},
            incarnation |-> 0]
InitConf == [EmptyConf EXCEPT !.voters = InitVoters, !.learners = InitLearners]
StorInit == [hs |-> EmptyHS, conf |-> InitConf, ti |-> 0, tt |-> 0, ents |-> <<>>, snapi |-> 0, snapt |-> 0,
             snapconf |-> EmptyConf, snapdata |-> ""]
NoNodeRec == [id |-> 0]
NoEvtRec == [ev |-> "None", n |-> 0, a |-> [x |-> 0], rk |-> "ok", hr0 |-> FALSE, hr |-> FALSE,
             gen |-> <<>>, out |-> <<>>, rd |-> EmptyRd]
NoPreRec == [up |-> FALSE, node |-> NoNodeRec, stor |-> StorInit, handedTo |-> 0]
NoRdiRec == [number |-> 0, hasSS |-> FALSE, lead |-> 0, role |-> "F", hasHS |-> FALSE, hs |-> EmptyHS]

(* apply one Ready's writes to a storage image: snapshot, entries, hard state *)
ApplyBatch(s, b) ==
    LET s1 == IF b.snap.i > 0
              THEN [s EXCEPT !.ti = b.snap.i, !.tt = b.snap.t, !.ents = <<>>, !.conf = b.snap.conf,
                             !.hs = [@ EXCEPT !.commit = Max(@, b.snap.i)],
                             !.snapi = b.snap.i, !.snapt = b.snap.t, !.snapconf = b.snap.conf, !.snapdata = b.snap.data]
              ELSE s
        s2 == IF b.ents # <<>>
              THEN [s1 EXCEPT !.ents = SubSeq(@, 1, b.ents[1].i - 1 - s1.ti) \o b.ents]
              ELSE s1
    IN IF b.hasHS THEN [s2 EXCEPT !.hs = b.hs] ELSE s2
BatchOK(s, b) == b.ents = <<>> \/ (b.ents[1].i >= StorFirst(IF b.snap.i > 0 THEN [s EXCEPT !.ti = b.snap.i, !.ents = <<>>] ELSE s)
                                    /\ b.ents[1].i <= (IF b.snap.i > 0 THEN b.snap.i ELSE StorLast(s)) + 1)

ConfAt(a, k) ==      \* configuration after applying index k (function of the committed log)
    LET S == {x \in DOMAIN a.confHist : a.confHist[x].k <= k}
    IN IF S = {} THEN InitConf ELSE a.confHist[CHOOSE x \in S : \A y \in S : a.confHist[y].k <= a.confHist[x].k].conf

-----------------------------------------------------------------------------
Init ==
    /\ stor = [i \in Nodes |-> StorInit]
    /\ dur = [i \in Nodes |-> StorInit]
    /\ cfg = [i \in Nodes |-> IF i \in Ids THEN Knobs[i] ELSE [x |-> 0]]
    /\ app = [i \in Nodes |-> AppInit]
    /\ \E rts \in [Ids -> UNION {Timeouts[i] : i \in Ids}] :
          /\ \A i \in Ids : rts[i] \in Timeouts[i]
          /\ node = [i \in Nodes |-> IF i \in Ids THEN NewNode(i, StorInit, Knobs[i], 0, rts[i]) ELSE NoNodeRec]
          /\ h = <<[ev |-> "Init", rts |-> rts]>>
    /\ up = [i \in Nodes |-> i \in Ids]
    /\ net = EmptyBag
    /\ rdi = [i \in Nodes |-> NoRdiRec]
    /\ pre = NoPreRec
    /\ evt = NoEvtRec
    /\ gh = [GhostInit EXCEPT !.members = Ids]
    /\ bad = {}

Idle(i) == i \in Ids /\ up[i] /\ app[i].outstanding = 0
SendAll(bag, ms) == LET RECURSIVE F(_, _)
                        F(b, k) == IF k > Len(ms) THEN b ELSE F(b (+) SetToBag({ms[k]}), k + 1)
                    IN F(bag, 1)
Remove(bag, m) == bag (-) SetToBag({m})

(* common tail of every node-level action: install the event record, ghost, judgement *)
NoRep == [j |-> 0, to |-> 0, ok |-> FALSE]
FinishX(i, ev, a, rk, n2, isUp, st2, du2, ap2, gen, out, rd, choice, rep) ==
    /\ node' = [node EXCEPT ![i] = n2]
    /\ up' = [up EXCEPT ![i] = isUp]
    /\ stor' = [stor EXCEPT ![i] = st2]
    /\ dur' = [dur EXCEPT ![i] = du2]
    /\ app' = IF rep.j # 0 /\ rep.j # i /\ up[rep.j]
              THEN [app EXCEPT ![i] = ap2, ![rep.j].reports = @ \cup {<<rep.to, rep.ok>>}]
              ELSE [app EXCEPT ![i] = ap2]
    /\ UNCHANGED cfg
    /\ pre' = [up |-> up[i], node |-> node[i], stor |-> stor[i], handedTo |-> gh.handedTo[i]]
    /\ evt' = [ev |-> ev, n |-> i, a |-> a, rk |-> rk, hr0 |-> IF up[i] THEN HasReady(node[i], stor[i]) ELSE FALSE,
               hr |-> IF isUp THEN HasReady(n2, st2) ELSE FALSE, gen |-> gen, out |-> out, rd |-> rd]
    /\ gh' = GhostNext(gh, evt', n2, st2, du2, [applied |-> ap2.applied, sm |-> ap2.sm], isUp)
    /\ h' = Append(h, choice)
    /\ bad' = bad \cup Violations'
Finish(i, ev, a, rk, n2, isUp, st2, du2, ap2, gen, out, rd, choice) ==
    FinishX(i, ev, a, rk, n2, isUp, st2, du2, ap2, gen, out, rd, choice, NoRep)

Gen(n1, n2) == SubSeqFrom(n2.msgs, Len(n1.msgs) + 1)

(* a call that only changes the node (no application-side effect) *)
SimpleCall(i, ev, a, r, choice) ==
    /\ net' = net /\ rdi' = rdi
    /\ IF r.n.pan
       THEN Finish(i, ev, a, "panic", node[i], FALSE, dur[i], dur[i],
                   [app[i] EXCEPT !.outstanding = 0, !.pending = <<>>, !.held = <<>>, !.queue = <<>>, !.reports = {}],
                   <<>>, <<>>, EmptyRd, choice)
       ELSE Finish(i, ev, a, IF r.err THEN "err" ELSE "ok", r.n, TRUE, stor[i], dur[i], app[i],
                   Gen(node[i], r.n), <<>>, EmptyRd, choice)

RtChoices(i) == Timeouts[i]

TickA(i) == /\ Idle(i)
            /\ \E rt \in RtChoices(i) :
                 SimpleCall(i, "Tick", [x |-> 0], NE(Tick(node[i], stor[i], cfg[i], rt), FALSE),
                            IF node[i].role = "L" THEN [ev |-> "Tick", n |-> i, rt |-> rt, ld |-> TRUE]
                            ELSE [ev |-> "Tick", n |-> i, rt |-> rt])

(* compact identification of a message in a schedule *)
MsgKey(m) == [from |-> m.from, to |-> m.to, ty |-> m.ty, term |-> m.term, idx |-> m.idx, lt |-> m.lt,
              commit |-> m.commit, rej |-> m.rej, hint |-> m.hint, ne |-> Len(m.ents), ctx |-> m.ctx, si |-> m.snap.i]

DeliverA(m, keep) ==
    LET i == m.to IN
    /\ BagIn(m, net) /\ Idle(i)
    /\ \E rt \in RtChoices(i) :
         LET r == RawStep(node[i], stor[i], cfg[i], m, rt)
             ap1 == app   \* snapshot delivery obliges the sender's application to report its status
         IN /\ net' = IF keep THEN net ELSE Remove(net, m)
            /\ rdi' = rdi
            /\ IF r.n.pan
               THEN Finish(i, "Deliver", [m |-> m, keep |-> keep], "panic", node[i], FALSE, dur[i], dur[i],
                           [app[i] EXCEPT !.outstanding = 0, !.pending = <<>>, !.held = <<>>, !.queue = <<>>, !.reports = {}],
                           <<>>, <<>>, EmptyRd, [ev |-> "DeliverSpec", m |-> MsgKey(m), keep |-> keep, rt |-> rt])
               ELSE FinishX(i, "Deliver", [m |-> m, keep |-> keep], IF r.err THEN "err" ELSE "ok", r.n, TRUE, stor[i],
                            dur[i], app[i], Gen(node[i], r.n), <<>>, EmptyRd,
                            [ev |-> "DeliverSpec", m |-> MsgKey(m), keep |-> keep, rt |-> rt],
                            IF m.ty = "Snap" /\ ~keep THEN [j |-> m.from, to |-> m.to, ok |-> TRUE] ELSE NoRep)

DropA(m) ==
    /\ BagIn(m, net)
    /\ net' = Remove(net, m)
    /\ app' = IF m.ty = "Snap" /\ m.from \in Ids /\ up[m.from]
              THEN [app EXCEPT ![m.from].reports = @ \cup {<<m.to, FALSE>>}] ELSE app
    /\ UNCHANGED <<node, up, stor, dur, cfg, gh, rdi, bad>>
    /\ pre' = NoPreRec /\ evt' = [NoEvtRec EXCEPT !.ev = "Drop"]
    /\ h' = Append(h, [ev |-> "DropSpec", m |-> MsgKey(m)])

ProposeA(i, p, sz) ==
    /\ Idle(i)
    /\ \E rt \in RtChoices(i) :
         SimpleCall(i, "Propose", [p |-> p, sz |-> sz], RawPropose(node[i], stor[i], cfg[i], <<DataEntry(p, sz)>>, rt),
                    [ev |-> "Propose", n |-> i, p |-> p, rt |-> rt])

ProposeConfA(i, tr, ch, sz) ==
    /\ Idle(i)
    /\ \E rt \in RtChoices(i) :
         SimpleCall(i, "ProposeConf", [v1 |-> FALSE, tr |-> tr, ch |-> ch, sz |-> sz],
                    RawProposeConf(node[i], stor[i], cfg[i],
                                   [EmptyEntry EXCEPT !.ty = "C2", !.tr = tr, !.ch = ch, !.sz = sz], rt),
                    [ev |-> "ProposeConf", n |-> i, v1 |-> FALSE, tr |-> tr, ch |-> ch, rt |-> rt])

CampaignA(i) ==
    /\ Idle(i)
    /\ \E rt \in RtChoices(i) :
         SimpleCall(i, "Campaign", [x |-> 0], RawCampaign(node[i], stor[i], cfg[i], rt), [ev |-> "Campaign", n |-> i, rt |-> rt])

ReadIndexA(i, ctx) ==
    /\ Idle(i)
    /\ \E rt \in RtChoices(i) :
         SimpleCall(i, "ReadIndex", [ctx |-> ctx], RawReadIndex(node[i], stor[i], cfg[i], ctx, rt),
                    [ev |-> "ReadIndex", n |-> i, ctx |-> ctx, rt |-> rt])

TransferA(i, to) ==
    /\ Idle(i)
    /\ \E rt \in RtChoices(i) :
         SimpleCall(i, "Transfer", [to |-> to], RawTransfer(node[i], stor[i], cfg[i], to, rt),
                    [ev |-> "Transfer", n |-> i, to |-> to, rt |-> rt])

(* ---- Ready / advance ---- *)
InstallSnapshotInApp(a, s) ==
    [a EXCEPT !.applied = s.i, !.sm = s.data,
              !.confHist = Append(@, [k |-> s.i, conf |-> s.conf]),
              !.queue = SelectSeq(@, LAMBDA e : e.i > s.i)]

ReadyA(i) ==
    /\ Idle(i) /\ HasReady(node[i], stor[i])
    /\ LET r == Ready(node[i], stor[i], cfg[i])
           b == [number |-> r.rd.number, snap |-> r.rd.snap, ents |-> r.rd.ents, hasHS |-> r.rd.hasHS, hs |-> r.rd.hs]
           ok == BatchOK(stor[i], b)
           st2 == IF ok THEN ApplyBatch(stor[i], b) ELSE stor[i]
           a1 == IF r.rd.snap.i > 0 THEN InstallSnapshotInApp(app[i], r.rd.snap) ELSE app[i]
           a2 == [a1 EXCEPT !.pending = Append(@, b), !.lastTaken = r.rd.number,
                            !.queue = @ \o r.rd.committed,
                            !.held = IF r.rd.pmsgs # <<>> THEN Append(@, [number |-> r.rd.number, msgs |-> r.rd.pmsgs]) ELSE @,
                            !.outstanding = r.rd.number]
       IN /\ net' = SendAll(net, r.rd.msgs)
          /\ rdi' = [rdi EXCEPT ![i] = [number |-> r.rd.number, hasSS |-> r.rd.hasSS, lead |-> node[i].lead,
                                        role |-> node[i].role, hasHS |-> r.rd.hasHS, hs |-> r.rd.hs]]
          /\ IF r.n.pan
             THEN Finish(i, "Ready", [force |-> FALSE], "panic", node[i], FALSE, dur[i], dur[i],
                         [app[i] EXCEPT !.outstanding = 0, !.pending = <<>>, !.held = <<>>, !.queue = <<>>, !.reports = {}],
                         <<>>, <<>>, EmptyRd, [ev |-> "Ready", n |-> i])
             ELSE Finish(i, "Ready", [force |-> FALSE], IF ok THEN "ok" ELSE "storerr", r.n, TRUE, st2, dur[i], a2,
                         <<>>, r.rd.msgs, r.rd, [ev |-> "Ready", n |-> i])

RECURSIVE FsyncUpto(_, _, _)
(* <<dur', pending', lastDurable'>> *)
FsyncUpto(d, pend, upto) ==
    IF pend = <<>> \/ pend[1].number > upto THEN <<d, pend>>
    ELSE FsyncUpto(ApplyBatch(d, pend[1]), Tail(pend), upto)

RECURSIVE HeldMsgs(_, _)
HeldMsgs(held, upto) ==
    IF held = <<>> THEN <<>>
    ELSE (IF held[1].number <= upto THEN held[1].msgs ELSE <<>>) \o HeldMsgs(Tail(held), upto)
HeldRest(held, upto) == SelectSeq(held, LAMBDA x : x.number > upto)

AdvanceAppendA(i) ==
    /\ i \in Ids /\ up[i] /\ app[i].outstanding # 0
    /\ LET f == FsyncUpto(dur[i], app[i].pending, 1000000)
           r == AdvanceAppend(node[i], stor[i], cfg[i], rdi[i])
           out == HeldMsgs(app[i].held, 1000000) \o r.light.msgs
           a2 == [app[i] EXCEPT !.outstanding = 0, !.pending = <<>>, !.held = <<>>,
                                !.lastDurable = app[i].lastTaken, !.lastNotified = app[i].lastTaken,
                                !.queue = @ \o r.light.committed]
           rd == [EmptyRd EXCEPT !.number = rdi[i].number, !.committed = r.light.committed, !.msgs = r.light.msgs,
                                 !.commitIndex = r.light.commitIndex]
       IN /\ rdi' = rdi
          /\ IF r.n.pan
             THEN /\ net' = net
                  /\ Finish(i, "AdvanceAppend", [x |-> 0], "panic", node[i], FALSE, f[1], f[1],
                            [app[i] EXCEPT !.outstanding = 0, !.pending = <<>>, !.held = <<>>, !.queue = <<>>, !.reports = {}],
                            <<>>, <<>>, EmptyRd, [ev |-> "AdvanceAppend", n |-> i])
             ELSE /\ net' = SendAll(net, out)
                  /\ Finish(i, "AdvanceAppend", [x |-> 0], "ok", r.n, TRUE, stor[i], f[1], a2, <<>>, out, rd,
                            [ev |-> "AdvanceAppend", n |-> i])

AdvanceAsyncA(i) ==
    /\ i \in Ids /\ up[i] /\ app[i].outstanding # 0
    /\ LET n2 == AdvanceAppendAsync(node[i], rdi[i])
       IN /\ net' = net /\ rdi' = rdi
          /\ IF n2.pan
             THEN Finish(i, "AdvanceAsync", [x |-> 0], "panic", node[i], FALSE, dur[i], dur[i],
                         [app[i] EXCEPT !.outstanding = 0, !.pending = <<>>, !.held = <<>>, !.queue = <<>>, !.reports = {}],
                         <<>>, <<>>, EmptyRd, [ev |-> "AdvanceAsync", n |-> i])
             ELSE Finish(i, "AdvanceAsync", [x |-> 0], "ok", n2, TRUE, stor[i], dur[i],
                         [app[i] EXCEPT !.outstanding = 0], <<>>, <<>>, [EmptyRd EXCEPT !.number = rdi[i].number],
                         [ev |-> "AdvanceAsync", n |-> i])

FsyncA(i, upto) ==
    /\ i \in Ids /\ up[i] /\ app[i].pending # <<>> /\ app[i].pending[1].number <= upto /\ upto <= app[i].lastTaken
    /\ LET f == FsyncUpto(dur[i], app[i].pending, upto)
       IN /\ net' = net /\ rdi' = rdi
          /\ Finish(i, "Fsync", [upto |-> upto], "ok", node[i], TRUE, stor[i], f[1],
                    [app[i] EXCEPT !.pending = f[2], !.lastDurable = upto], <<>>, <<>>, EmptyRd,
                    [ev |-> "Fsync", n |-> i, upto |-> upto])

NotifyA(i, number) ==
    /\ Idle(i) /\ number > app[i].lastNotified /\ number <= app[i].lastDurable
    /\ LET n2 == OnPersistReady(node[i], stor[i], cfg[i], number)
           out == HeldMsgs(app[i].held, number)
       IN /\ rdi' = rdi
          /\ IF n2.pan
             THEN /\ net' = net
                  /\ Finish(i, "Notify", [number |-> number], "panic", node[i], FALSE, dur[i], dur[i],
                            [app[i] EXCEPT !.outstanding = 0, !.pending = <<>>, !.held = <<>>, !.queue = <<>>, !.reports = {}],
                            <<>>, <<>>, EmptyRd, [ev |-> "Notify", n |-> i, number |-> number])
             ELSE /\ net' = SendAll(net, out)
                  /\ Finish(i, "Notify", [number |-> number], "ok", n2, TRUE, stor[i], dur[i],
                            [app[i] EXCEPT !.lastNotified = number, !.held = HeldRest(@, number)],
                            Gen(node[i], n2), out, EmptyRd, [ev |-> "Notify", n |-> i, number |-> number])

RECURSIVE AppApply(_, _, _, _, _)
(* the application's state machine applies queued entries up to k: <<node', app'>> *)
AppApply(n, st, c, a, k) ==
    IF a.queue = <<>> \/ a.queue[1].i > k THEN <<n, a>>
    ELSE LET e == a.queue[1]
             a1 == [a EXCEPT !.queue = Tail(@)]
         IN IF e.i <= a.applied THEN AppApply(n, st, c, a1, k)
            ELSE LET a2 == [a1 EXCEPT !.applied = e.i,
                                      !.sm = IF e.ty = "N" /\ e.sz > 0 THEN Append(@, <<e.i, e.p>>) ELSE @]
                 IN IF IsConfEntry(e)
                    THEN LET r == ApplyConfChange(n, st, c, e.tr, e.ch)
                         IN IF r.ok THEN AppApply(r.n, st, c, [a2 EXCEPT !.confHist = Append(@, [k |-> e.i, conf |-> r.n.conf])], k)
                            ELSE AppApply(n, st, c, a2, k)
                    ELSE AppApply(n, st, c, a2, k)

ApplyA(i, k) ==
    /\ Idle(i)
    /\ k >= app[i].applied
    /\ k <= (IF app[i].queue = <<>> THEN app[i].applied ELSE Last(app[i].queue).i)
    /\ ~(k = app[i].applied /\ node[i].log.applied >= k)
    /\ LET r == AppApply(node[i], stor[i], cfg[i], app[i], k)
           n2 == IF r[1].pan THEN r[1] ELSE AdvanceApplyTo(r[1], stor[i], cfg[i], k)
           st2 == [stor[i] EXCEPT !.conf = n2.conf]
       IN /\ net' = net /\ rdi' = rdi
          /\ IF n2.pan
             THEN Finish(i, "Apply", [k |-> k], "panic", node[i], FALSE, dur[i], dur[i],
                         [app[i] EXCEPT !.outstanding = 0, !.pending = <<>>, !.held = <<>>, !.queue = <<>>, !.reports = {}],
                         <<>>, <<>>, EmptyRd, [ev |-> "Apply", n |-> i, k |-> k])
             ELSE Finish(i, "Apply", [k |-> k], "ok", n2, TRUE, st2, dur[i], r[2], Gen(node[i], n2), <<>>, EmptyRd,
                         [ev |-> "Apply", n |-> i, k |-> k])

CrashA(i) ==
    /\ i \in Ids /\ up[i]
    /\ net' = net /\ rdi' = rdi
    /\ Finish(i, "Crash", [x |-> 0], "ok", node[i], FALSE, dur[i], dur[i],
              [app[i] EXCEPT !.outstanding = 0, !.pending = <<>>, !.held = <<>>, !.queue = <<>>, !.reports = {}],
              <<>>, <<>>, EmptyRd, [ev |-> "Crash", n |-> i])

RestartA(i) ==
    /\ i \in Ids /\ ~up[i]
    /\ \E rt \in RtChoices(i) :
       LET lo == dur[i].ti
           a == Max(lo, Min(app[i].applied, dur[i].hs.commit))
           st2 == [dur[i] EXCEPT !.conf = ConfAt(app[i], a)]
           n2 == NewNode(i, st2, cfg[i], a, rt)
           ap2 == [app[i] EXCEPT !.applied = a, !.sm = SelectSeq(@, LAMBDA x : x[1] <= a),
                                 !.lastTaken = 0, !.lastDurable = 0, !.lastNotified = 0, !.incarnation = @ + 1]
       IN /\ net' = net /\ rdi' = rdi
          /\ Finish(i, "Restart", [applied |-> a, knobs |-> cfg[i]], IF n2.pan THEN "panic" ELSE "ok", n2, ~n2.pan,
                    st2, st2, ap2, <<>>, <<>>, EmptyRd, [ev |-> "Restart", n |-> i, applied |-> a, rt |-> rt])


ReportSnapA(i, j, ok) ==
    /\ Idle(i) /\ <<j, ok>> \in app[i].reports
    /\ \E rt \in RtChoices(i) :
         LET r == RawReportSnapshot(node[i], stor[i], cfg[i], j, ok, rt)
         IN /\ net' = net /\ rdi' = rdi
            /\ Finish(i, "ReportSnap", [j |-> j, ok |-> ok], IF r.n.pan THEN "panic" ELSE "ok", r.n, ~r.n.pan, stor[i], dur[i],
                      [app[i] EXCEPT !.reports = @ \ {<<j, ok>>}], Gen(node[i], r.n), <<>>, EmptyRd,
                      [ev |-> "ReportSnap", n |-> i, j |-> j, ok |-> ok, rt |-> rt])

UnreachableA(i, j) ==
    /\ Idle(i)
    /\ \E rt \in RtChoices(i) :
         SimpleCall(i, "Unreachable", [j |-> j], RawUnreachable(node[i], stor[i], cfg[i], j, rt),
                    [ev |-> "Unreachable", n |-> i, j |-> j, rt |-> rt])

RequestSnapA(i) ==
    /\ Idle(i)
    /\ SimpleCall(i, "RequestSnap", [x |-> 0], RawRequestSnapshot(node[i], stor[i]), [ev |-> "RequestSnap", n |-> i])

(* the application takes a snapshot of its state machine at a durable applied index *)
SnapPointOf(i) == Min(Min(app[i].applied, node[i].log.applied), Min(dur[i].hs.commit, StorLast(dur[i])))
(* a snapshot may be taken at whatever the application has applied and the disk holds; the stored commit index may
   lag (the commit index of a LightReady need not be written) and does not bound it; compaction stays bounded by it *)
MakeSnapPointOf(i) == Min(Min(app[i].applied, node[i].log.applied), StorLast(dur[i]))
MakeSnapA(i) ==
    /\ i \in Ids /\ up[i]
    /\ LET s == MakeSnapPointOf(i)
       IN /\ s > 0 /\ s > dur[i].ti /\ stor[i].snapi < s /\ StorTermOK(dur[i], s)
          /\ LET snap == [i |-> s, t |-> StorTerm(dur[i], s), conf |-> ConfAt(app[i], s),
                          data |-> SelectSeq(app[i].sm, LAMBDA x : x[1] <= s)]
                 upd(img) == [img EXCEPT !.snapi = s, !.snapt = snap.t, !.snapconf = snap.conf, !.snapdata = snap.data]
             IN /\ net' = net /\ rdi' = rdi
                /\ Finish(i, "MakeSnap", [i |-> s], "ok", node[i], TRUE, upd(stor[i]), upd(dur[i]), app[i],
                          <<>>, <<>>, EmptyRd, [ev |-> "MakeSnap", n |-> i])

CompactImg(img, k) == [img EXCEPT !.tt = StorTerm(img, k), !.ents = SubSeq(@, k - img.ti + 1, Len(@)), !.ti = k]
CompactA(i, k) ==
    /\ i \in Ids /\ up[i]
    /\ k <= Min(SnapPointOf(i), StorLast(stor[i]))
    /\ k > dur[i].ti /\ k > stor[i].ti /\ stor[i].snapi >= k
    /\ net' = net /\ rdi' = rdi
    /\ Finish(i, "Compact", [k |-> k], "ok", node[i], TRUE, CompactImg(stor[i], k), CompactImg(dur[i], k), app[i],
              <<>>, <<>>, EmptyRd, [ev |-> "Compact", n |-> i, k |-> k])

=============================================================================
