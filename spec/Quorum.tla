-------------------------------- MODULE Quorum --------------------------------
(***************************************************************************)
(* Quorum arithmetic of src/quorum/{majority,joint}.rs and tracker.rs.      *)
(* Two descriptions of the committed index:                                 *)
(*   MajCommitted  - the property C11: largest index acknowledged by a      *)
(*                   majority (a missing voter acknowledges 0)              *)
(*   MajCommittedSorted - the code: sort descending, take element n/2       *)
(* MC_Quorum checks that they agree and prints vectors for the real code.   *)
(* Inf (u64::MAX) is represented by -1.                                     *)
(***************************************************************************)
EXTENDS Naturals, Integers, Sequences, FiniteSets

Inf == -1
MinInf(a, b) == IF a = Inf THEN b ELSE IF b = Inf THEN a ELSE IF a <= b THEN a ELSE b
SMax(S) == CHOOSE x \in S : \A y \in S : y <= x

(* ack is a function id -> index; ids outside DOMAIN ack acknowledge 0 *)
AckOf(ack, v) == IF v \in DOMAIN ack THEN ack[v] ELSE 0

MajCommitted(V, ack) ==
    IF V = {} THEN Inf
    ELSE SMax({x \in {AckOf(ack, v) : v \in V} \cup {0} :
                 Cardinality({v \in V : AckOf(ack, v) >= x}) * 2 > Cardinality(V)})

(* code shape: the (n/2+1)-th largest value *)
RECURSIVE KthLargest(_, _, _)
KthLargest(V, ack, k) ==
    LET m == SMax({AckOf(ack, v) : v \in V})
        top == CHOOSE v \in V : AckOf(ack, v) = m
    IN IF k = 1 THEN m ELSE KthLargest(V \ {top}, ack, k - 1)
MajCommittedSorted(V, ack) ==
    IF V = {} THEN Inf ELSE KthLargest(V, ack, (Cardinality(V) \div 2) + 1)

JointCommitted(inc, out, ack) == MinInf(MajCommitted(inc, ack), MajCommitted(out, ack))

(* votes: function id -> BOOLEAN on a subset of ids *)
MajVote(V, votes) ==
    IF V = {} THEN "Won"
    ELSE LET yes == Cardinality({v \in V : v \in DOMAIN votes /\ votes[v]})
             missing == Cardinality({v \in V : v \notin DOMAIN votes})
             q == (Cardinality(V) \div 2) + 1
         IN IF yes >= q THEN "Won" ELSE IF yes + missing >= q THEN "Pending" ELSE "Lost"
JointVote(inc, out, votes) ==
    LET a == MajVote(inc, votes)
        b == MajVote(out, votes)
    IN IF a = "Won" /\ b = "Won" THEN "Won"
       ELSE IF a = "Lost" \/ b = "Lost" THEN "Lost" ELSE "Pending"
(* the statement of C11: won iff a majority of each set granted, lost iff some set cannot reach it *)
VoteStatement(inc, out, votes) ==
    LET granted(V) == Cardinality({v \in V : v \in DOMAIN votes /\ votes[v]}) * 2 > Cardinality(V)
        reachable(V) == Cardinality({v \in V : v \notin DOMAIN votes \/ votes[v]}) * 2 > Cardinality(V)
        halves == {H \in {inc, out} : H # {}}
    IN IF \A H \in halves : granted(H) THEN "Won"
       ELSE IF \E H \in halves : ~reachable(H) THEN "Lost" ELSE "Pending"
HasQuorum(inc, out, S) == JointVote(inc, out, [v \in S |-> TRUE]) = "Won"

(* group commit, as the statement reads: largest x <= plain whose holders span >= 2 groups *)
GroupOf(grp, v) == IF v \in DOMAIN grp THEN grp[v] ELSE 0
GCStatement(V, ack, grp) ==
    LET plain == MajCommitted(V, ack)
    IN SMax({x \in {AckOf(ack, v) : v \in V} \cup {0} :
               /\ x <= plain
               /\ (x = 0 \/ Cardinality({GroupOf(grp, v) : v \in {w \in V : AckOf(ack, w) >= x}}) >= 2)})
AllGrouped(V, grp) == \A v \in V : GroupOf(grp, v) # 0
Groups(V, grp) == {GroupOf(grp, v) : v \in V}

=============================================================================
