//! SimStorage: the application-side `Storage` used by the cluster simulator.
//! One `StoreImage` is what the `Storage` trait answers (the write cache, `stor[i]` in the spec);
//! a second one kept by the simulator is the durable image (`dur[i]`).

use raft::eraftpb::{ConfState, Entry, HardState, Snapshot};
use raft::storage::{GetEntriesContext, RaftState, Storage};
use raft::{Error, Result, StorageError};
use serde::Serialize;

use crate::view::{conf_view, entry_view, hs_view, snap_view, ConfV, EntryV, HsV};

#[derive(Clone, Default, Debug)]
pub struct StoreImage {
    pub hs: HardState,
    pub conf: ConfState,
    pub trunc_index: u64,
    pub trunc_term: u64,
    pub entries: Vec<Entry>,
    /// Latest snapshot the application has available for sending.
    pub snap: Option<Snapshot>,
}

#[derive(Clone, Debug, Default)]
pub struct WriteBatch {
    pub number: u64,
    pub snapshot: Option<Snapshot>,
    pub entries: Vec<Entry>,
    pub hs: Option<HardState>,
}

impl StoreImage {
    pub fn first_index(&self) -> u64 {
        self.trunc_index + 1
    }
    pub fn last_index(&self) -> u64 {
        self.trunc_index + self.entries.len() as u64
    }
    pub fn term(&self, idx: u64) -> Option<u64> {
        if idx == self.trunc_index {
            return Some(self.trunc_term);
        }
        if idx < self.first_index() || idx > self.last_index() {
            return None;
        }
        Some(self.entries[(idx - self.first_index()) as usize].term)
    }
    pub fn entry(&self, idx: u64) -> Option<&Entry> {
        if idx < self.first_index() || idx > self.last_index() {
            return None;
        }
        Some(&self.entries[(idx - self.first_index()) as usize])
    }

    /// Applies one Ready's writes in the documented order: snapshot, entries, hard state.
    /// Returns Err(description) if the hand-off violates the storage contract (gap / compacted).
    pub fn apply_batch(&mut self, b: &WriteBatch) -> std::result::Result<(), String> {
        if let Some(s) = &b.snapshot {
            let m = s.get_metadata();
            if m.index < self.trunc_index {
                return Err(format!(
                    "snapshot {} older than storage snapshot point {}",
                    m.index, self.trunc_index
                ));
            }
            self.trunc_index = m.index;
            self.trunc_term = m.term;
            self.entries.clear();
            self.conf = m.get_conf_state().clone();
            if self.hs.commit < m.index {
                self.hs.commit = m.index;
            }
            self.snap = Some(s.clone());
        }
        if let Some(first) = b.entries.first() {
            if first.index < self.first_index() {
                return Err(format!(
                    "entries start at {} below first index {}",
                    first.index,
                    self.first_index()
                ));
            }
            if first.index > self.last_index() + 1 {
                return Err(format!(
                    "gap: entries start at {} but last index is {}",
                    first.index,
                    self.last_index()
                ));
            }
            let keep = (first.index - self.first_index()) as usize;
            self.entries.truncate(keep);
            for (k, e) in b.entries.iter().enumerate() {
                if e.index != first.index + k as u64 {
                    return Err(format!("non-contiguous entries at {}", e.index));
                }
                self.entries.push(e.clone());
            }
        }
        if let Some(hs) = &b.hs {
            self.hs = hs.clone();
        }
        Ok(())
    }

    pub fn compact(&mut self, to: u64) {
        // discard entries <= to (to becomes the new snapshot point)
        if to <= self.trunc_index || to > self.last_index() {
            return;
        }
        let t = self.term(to).unwrap();
        let n = (to - self.trunc_index) as usize;
        self.entries.drain(..n);
        self.trunc_index = to;
        self.trunc_term = t;
    }
}

#[derive(Serialize, Clone, Debug, Default, PartialEq)]
pub struct StoreView {
    pub hs: HsV,
    pub conf: ConfV,
    pub ti: u64,
    pub tt: u64,
    pub ents: Vec<EntryV>,
    pub snapi: u64,
    pub snapt: u64,
    pub snapconf: ConfV,
    pub snapdata: String,
}

pub fn store_view(s: &StoreImage) -> StoreView {
    StoreView {
        hs: hs_view(&s.hs),
        conf: conf_view(&s.conf),
        ti: s.trunc_index,
        tt: s.trunc_term,
        ents: s.entries.iter().map(entry_view).collect(),
        snapi: s.snap.as_ref().map(|x| x.get_metadata().index).unwrap_or(0),
        snapt: s.snap.as_ref().map(|x| x.get_metadata().term).unwrap_or(0),
        snapconf: s.snap.as_ref().map(|x| snap_view(x).conf).unwrap_or_default(),
        snapdata: s.snap.as_ref().map(|x| snap_view(x).data).unwrap_or_default(),
    }
}

pub struct SimStorage {
    pub img: StoreImage,
}

impl Storage for SimStorage {
    fn initial_state(&self) -> Result<RaftState> {
        Ok(RaftState::new(self.img.hs.clone(), self.img.conf.clone()))
    }

    fn entries(
        &self,
        low: u64,
        high: u64,
        max_size: impl Into<Option<u64>>,
        _context: GetEntriesContext,
    ) -> Result<Vec<Entry>> {
        let max_size = max_size.into();
        if low < self.img.first_index() {
            return Err(Error::Store(StorageError::Compacted));
        }
        if high > self.img.last_index() + 1 {
            panic!(
                "SimStorage: index out of bound (last: {}, high: {})",
                self.img.last_index() + 1,
                high
            );
        }
        let off = self.img.first_index();
        let mut ents = self.img.entries[(low - off) as usize..(high - off) as usize].to_vec();
        raft::util::limit_size(&mut ents, max_size);
        Ok(ents)
    }

    fn term(&self, idx: u64) -> Result<u64> {
        if idx == self.img.trunc_index {
            return Ok(self.img.trunc_term);
        }
        if idx < self.img.first_index() {
            return Err(Error::Store(StorageError::Compacted));
        }
        if idx > self.img.last_index() {
            return Err(Error::Store(StorageError::Unavailable));
        }
        Ok(self.img.term(idx).unwrap())
    }

    fn first_index(&self) -> Result<u64> {
        Ok(self.img.first_index())
    }

    fn last_index(&self) -> Result<u64> {
        Ok(self.img.last_index())
    }

    fn snapshot(&self, request_index: u64, _to: u64) -> Result<Snapshot> {
        match &self.img.snap {
            Some(s) if s.get_metadata().index >= request_index && s.get_metadata().index > 0 => {
                Ok(s.clone())
            }
            _ => Err(Error::Store(StorageError::SnapshotTemporarilyUnavailable)),
        }
    }
}
