pub mod sched;
pub mod sim;
pub mod storage;
pub mod view;
