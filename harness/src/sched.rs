//! Seeded random scheduler: generates contract-abiding `Choice`s for the cluster simulator.
//! A profile fixes the cluster shape, knobs and the weights of faults and operations.

use rand::rngs::StdRng;
use rand::seq::SliceRandom;
use rand::{Rng, SeedableRng};
use serde::{Deserialize, Serialize};

use crate::sim::{Choice, Cluster, ClusterCfg, Event, Knobs};
use crate::view::{msg_view, ChV};

#[derive(Serialize, Deserialize, Clone, Debug)]
pub struct Profile {
    pub name: String,
    pub ids: Vec<u64>,
    pub voters: Vec<u64>,
    pub learners: Vec<u64>,
    pub steps: usize,
    pub max_log: u64,
    pub proposals: usize,
    pub conf_changes: usize,
    pub reads: usize,
    pub transfers: usize,
    pub w_tick: u32,
    pub w_deliver: u32,
    pub w_drop: u32,
    pub w_dup: u32,
    pub w_crash: u32,
    pub w_partition: u32,
    pub w_compact: u32,
    pub w_campaign: u32,
    pub w_knob: u32,
    pub w_reqsnap: u32,
    pub w_batch: u32,
    pub max_down: usize,
    /// probability (percent) that a node handles a Ready asynchronously
    pub async_pct: u32,
    /// probability (percent) that a sync advance uses advance() instead of advance_append()
    pub full_advance_pct: u32,
    pub payload_len: usize,
    pub pre_vote: bool,
    pub check_quorum: bool,
    pub randomize_knobs: bool,
    /// append a fault-free stabilisation suffix of this many rounds (0 = none)
    pub stabilize_rounds: usize,
    pub joint: bool,
    pub v1: bool,
    /// lock-step lease scenario (C16): rounds of the majority heartbeat schedule with a free minority
    pub lease_rounds: usize,
    /// payload lengths vary between 1 and `payload_len + 4` bytes
    pub payload_var: bool,
    /// runtime setters include group commit, priority, apply-before-persist limit
    pub group_commit: bool,
    /// every node gets a random election priority in 0..=2
    pub prio_knobs: bool,
    /// batch_append on every node
    pub batch_append: bool,
    /// max_committed_size_per_ready of every node (None = default / random)
    pub mcspr: Option<i64>,
    /// ReadOnlyOption::LeaseBased on every node
    pub lease_read: bool,
    /// fixed values for (max_size_per_msg, max_uncommitted_size) of every node; None = defaults / random
    pub size_knobs: Option<(i64, i64)>,
    /// name of a scripted scenario (phases of the random scheduler under explicit partitions); empty = none
    pub script: String,
}

impl Profile {
    pub fn base(name: &str) -> Profile {
        Profile {
            name: name.into(),
            ids: vec![1, 2, 3],
            voters: vec![1, 2, 3],
            learners: vec![],
            steps: 600,
            max_log: 20,
            proposals: 16,
            conf_changes: 0,
            reads: 0,
            transfers: 0,
            w_tick: 12,
            w_deliver: 60,
            w_drop: 3,
            w_dup: 2,
            w_crash: 1,
            w_partition: 1,
            w_compact: 0,
            w_campaign: 0,
            w_knob: 0,
            w_reqsnap: 0,
            w_batch: 0,
            max_down: 1,
            async_pct: 40,
            full_advance_pct: 30,
            payload_len: 2,
            pre_vote: false,
            check_quorum: false,
            randomize_knobs: false,
            stabilize_rounds: 0,
            joint: false,
            v1: false,
            lease_rounds: 0,
            payload_var: false,
            group_commit: false,
            prio_knobs: false,
            batch_append: false,
            mcspr: None,
            lease_read: false,
            size_knobs: None,
            script: String::new(),
        }
    }

    pub fn named(name: &str) -> Option<Profile> {
        let mut p = Profile::base(name);
        match name {
            "core" => {}
            "happy" => {
                p.w_drop = 0;
                p.w_dup = 0;
                p.w_crash = 0;
                p.w_partition = 0;
                p.async_pct = 0;
                p.full_advance_pct = 100;
            }
            "async" => {
                p.async_pct = 85;
                p.w_crash = 2;
            }
            "crashy" => {
                p.w_crash = 4;
                p.max_down = 2;
                p.async_pct = 50;
            }
            "single" => {
                p.ids = vec![1, 2];
                p.voters = vec![1];
                p.learners = vec![2];
                p.w_crash = 3;
                p.async_pct = 70;
                p.max_down = 1;
            }
            "learners" => {
                p.ids = vec![1, 2, 3, 4];
                p.voters = vec![1, 2, 3];
                p.learners = vec![4];
            }
            "five" => {
                p.ids = vec![1, 2, 3, 4, 5];
                p.voters = vec![1, 2, 3, 4, 5];
                p.max_down = 2;
                p.steps = 900;
            }
            "prevote" => {
                p.pre_vote = true;
                p.check_quorum = true;
                p.w_partition = 3;
                p.w_campaign = 1;
            }
            "checkquorum" => {
                p.check_quorum = true;
                p.w_partition = 3;
            }
            "flow" => {
                p.payload_var = true;
                p.randomize_knobs = true;
                p.proposals = 20;
                p.w_drop = 5;
                p.w_knob = 2;
                p.w_batch = 2;
                p.w_crash = 1;
                p.w_partition = 3;
            }
            "snap" => {
                p.w_compact = 6;
                p.w_reqsnap = 1;
                p.proposals = 14;
                p.w_partition = 2;
                p.w_crash = 2;
            }
            "conf" => {
                p.ids = vec![1, 2, 3, 4];
                p.voters = vec![1, 2, 3];
                p.conf_changes = 6;
                p.w_compact = 2;
                p.w_batch = 2;
                p.steps = 900;
            }
            "joint" => {
                p.ids = vec![1, 2, 3, 4];
                p.voters = vec![1, 2, 3];
                p.conf_changes = 6;
                p.joint = true;
                p.steps = 900;
            }
            "confv1" => {
                p.ids = vec![1, 2, 3, 4];
                p.voters = vec![1, 2];
                p.learners = vec![3];
                p.conf_changes = 6;
                p.v1 = true;
                p.steps = 900;
            }
            "shrink" => {
                p.ids = vec![1, 2];
                p.voters = vec![1, 2];
                p.conf_changes = 3;
                p.async_pct = 70;
                p.w_crash = 2;
            }
            "read" => {
                p.reads = 12;
                p.w_partition = 3;
                p.w_dup = 4;
            }
            "transfer" => {
                p.ids = vec![1, 2, 3, 4];
                p.voters = vec![1, 2, 3];
                p.learners = vec![4];
                p.transfers = 10;
                p.w_drop = 2;
                p.w_dup = 4;
                p.conf_changes = 3;
                p.async_pct = 60;
                p.steps = 800;
            }
            "readjoint" => {
                p.ids = vec![1, 2, 3, 4];
                p.voters = vec![1, 2, 3];
                p.learners = vec![4];
                p.reads = 14;
                p.conf_changes = 5;
                p.joint = true;
                p.w_partition = 4;
                p.w_crash = 0;
                p.steps = 900;
            }
            "s_staleread" => {
                p.ids = vec![1, 2, 3, 4];
                p.voters = vec![1, 2, 3];
                p.learners = vec![4];
                p.script = "stale_read".into();
                p.w_crash = 0;
                p.w_partition = 0;
                p.w_dup = 3;
            }
            "s_stalereadjoint" => {
                p.ids = vec![1, 2, 3];
                p.voters = vec![1, 2, 3];
                p.script = "stale_read_joint".into();
                p.w_crash = 0;
                p.w_partition = 0;
            }
            "s_lagsnap" => {
                p.script = "lag_snap".into();
                p.w_crash = 0;
                p.w_partition = 0;
                p.w_dup = 6;
                p.w_drop = 2;
                p.proposals = 24;
                p.max_log = 30;
                p.randomize_knobs = false;
            }
            "s_transfer" => {
                p.ids = vec![1, 2, 3];
                p.voters = vec![1, 2, 3];
                p.script = "transfer_race".into();
                p.w_crash = 0;
                p.w_partition = 0;
                p.w_dup = 5;
                p.w_drop = 3;
            }
            "s_reelect" => {
                p.ids = vec![1, 2, 3, 4, 5];
                p.voters = vec![1, 2, 3, 4, 5];
                p.script = "reelect".into();
                p.w_crash = 0;
                p.w_partition = 0;
                p.async_pct = 50;
                p.proposals = 30;
                p.max_log = 30;
            }
            "s_flowelect" => {
                p.payload_var = true;
                p.script = "flow_elect".into();
                p.randomize_knobs = true;
                p.w_crash = 0;
                p.w_partition = 0;
                p.proposals = 30;
                p.max_log = 30;
                p.w_batch = 2;
            }
            "s_confmix" => {
                p.ids = vec![1, 2, 3, 4];
                p.voters = vec![1, 2, 3];
                p.script = "conf_mix".into();
                p.joint = true;
                p.conf_changes = 10;
                p.w_batch = 3;
                p.w_crash = 2;
                p.transfers = 3;
                p.reads = 4;
                p.max_log = 30;
                p.proposals = 20;
            }
            "explore" => {
                // continuation profile for drift-guided exploration (resume mode)
                p.w_compact = 3;
                p.w_reqsnap = 1;
                p.reads = 4;
                p.transfers = 2;
                p.w_crash = 1;
                p.w_partition = 2;
                p.w_dup = 3;
                p.w_drop = 3;
                p.proposals = 10;
                p.max_log = 40;
                p.steps = 300;
            }
            "s_lagread" => {
                p.script = "lag_read".into();
                p.w_crash = 0;
                p.w_partition = 0;
                p.proposals = 24;
                p.max_log = 30;
            }
            "s_confbatch" => {
                p.ids = vec![1, 2, 3, 4];
                p.voters = vec![1, 2, 3];
                p.script = "conf_batch".into();
                p.w_crash = 0;
                p.w_partition = 0;
                p.conf_changes = 12;
                p.max_log = 40;
                p.proposals = 20;
            }
            "s_dualpv" => {
                p.ids = vec![1, 2, 3];
                p.voters = vec![1, 2, 3];
                p.script = "dual_campaign".into();
                p.pre_vote = true;
                p.w_crash = 0;
                p.w_partition = 0;
                p.w_drop = 0;
                p.w_dup = 2;
            }
            "s_dual" => {
                p.ids = vec![1, 2, 3];
                p.voters = vec![1, 2, 3];
                p.script = "dual_campaign".into();
                p.w_crash = 0;
                p.w_partition = 0;
                p.w_drop = 1;
                p.w_dup = 2;
            }
            "s_asyncover" => {
                p.ids = vec![1, 2, 3];
                p.voters = vec![1, 2, 3];
                p.script = "async_overwrite".into();
                p.w_crash = 0;
                p.w_partition = 0;
                p.w_drop = 1;
                p.async_pct = 60;
                p.proposals = 20;
                p.max_log = 30;
            }
            "s_demote" => {
                p.ids = vec![1, 2, 3, 4];
                p.voters = vec![1, 2, 3, 4];
                p.script = "demote_transfer".into();
                p.w_crash = 0;
                p.w_partition = 0;
                p.w_drop = 1;
                p.max_log = 30;
            }
            "s_tailelect" => {
                p.ids = vec![1, 2, 3];
                p.voters = vec![1, 2, 3];
                p.script = "tail_elect".into();
                p.w_crash = 0;
                p.w_partition = 0;
                p.w_drop = 0;
                p.w_dup = 1;
                p.payload_len = 3;
                p.size_knobs = Some((4, 4));
                p.proposals = 20;
                p.max_log = 40;
            }
            "s_staleack" => {
                p.ids = vec![1, 2, 3];
                p.voters = vec![1, 2, 3];
                p.script = "stale_ack_snap".into();
                p.w_crash = 0;
                p.w_partition = 0;
                p.w_drop = 0;
                p.proposals = 20;
                p.max_log = 40;
            }
            "s_reqsnap" => {
                p.ids = vec![1, 2, 3];
                p.voters = vec![1, 2, 3];
                p.script = "reqsnap_race".into();
                p.w_crash = 0;
                p.w_partition = 0;
                p.w_drop = 0;
                p.proposals = 20;
                p.max_log = 40;
            }
            "s_snapdup" => {
                p.ids = vec![1, 2, 3];
                p.voters = vec![1, 2, 3];
                p.script = "snap_dup".into();
                p.w_crash = 0;
                p.w_partition = 0;
                p.w_drop = 1;
                p.proposals = 30;
                p.max_log = 50;
            }
            "s_sizes" => {
                p.ids = vec![1, 2, 3];
                p.voters = vec![1, 2, 3];
                p.script = "lag_flow".into();
                p.w_crash = 0;
                p.w_partition = 0;
                p.w_drop = 1;
                p.payload_len = 4;
                p.payload_var = true;
                p.size_knobs = Some((22, -1));
                p.proposals = 40;
                p.max_log = 60;
            }
            "s_jointrestart" => {
                p.ids = vec![1, 2, 3, 4];
                p.voters = vec![1, 2, 3, 4];
                p.script = "joint_restart".into();
                p.joint = true;
                p.w_crash = 0;
                p.w_partition = 0;
                p.w_drop = 1;
                p.proposals = 20;
                p.max_log = 60;
            }
            "s_stalematch" => {
                p.ids = vec![1, 2, 3, 4, 5];
                p.voters = vec![1, 2, 3, 4, 5];
                p.script = "stale_match".into();
                p.w_crash = 0;
                p.w_partition = 0;
                p.w_drop = 1;
                p.w_dup = 2;
                p.proposals = 30;
                p.max_log = 80;
            }
            "group" => {
                p.ids = vec![1, 2, 3, 4, 5];
                p.voters = vec![1, 2, 3, 4, 5];
                p.group_commit = true;
                p.w_knob = 4;
                p.proposals = 20;
                p.w_partition = 2;
                p.w_crash = 1;
                p.w_drop = 3;
            }
            "s_transfer_cq" => {
                p.ids = vec![1, 2, 3];
                p.voters = vec![1, 2, 3];
                p.script = "transfer_race".into();
                p.check_quorum = true;
                p.w_crash = 0;
                p.w_partition = 0;
                p.w_drop = 4;
            }
            "s_reelect_prio" => {
                p.ids = vec![1, 2, 3, 4, 5];
                p.voters = vec![1, 2, 3, 4, 5];
                p.script = "reelect".into();
                p.prio_knobs = true;
                p.w_crash = 0;
                p.w_partition = 0;
                p.proposals = 20;
            }
            "s_prio3" => {
                p.ids = vec![1, 2, 3];
                p.voters = vec![1, 2, 3];
                p.script = "stale_candidate".into();
                p.prio_knobs = true;
                p.w_crash = 0;
                p.w_partition = 0;
                p.proposals = 30;
                p.max_log = 40;
            }
            "s_batch" => {
                p.ids = vec![1, 2, 3];
                p.voters = vec![1, 2, 3];
                p.script = "batch_retx".into();
                p.batch_append = true;
                p.w_crash = 0;
                p.w_partition = 0;
                p.w_drop = 1;
                p.proposals = 30;
                p.max_log = 60;
            }
            "s_stalecand" => {
                p.ids = vec![1, 2, 3];
                p.voters = vec![1, 2, 3];
                p.script = "stale_candidate".into();
                p.w_crash = 0;
                p.w_partition = 0;
                p.proposals = 30;
                p.max_log = 50;
            }
            "s_asyncself" => {
                p.ids = vec![1, 2];
                p.voters = vec![1];
                p.learners = vec![2];
                p.script = "async_self_elect".into();
                p.w_crash = 0;
                p.w_partition = 0;
                p.w_drop = 1;
                p.async_pct = 50;
                p.proposals = 20;
                p.max_log = 40;
            }
            "s_snaplazy" => {
                p.ids = vec![1, 2, 3];
                p.voters = vec![1, 2, 3];
                p.script = "snap_lazy_apply".into();
                p.w_crash = 0;
                p.w_partition = 0;
                p.w_drop = 1;
                p.proposals = 30;
                p.max_log = 50;
            }
            "s_staleprobe" => {
                p.ids = vec![1, 2, 3];
                p.voters = vec![1, 2, 3];
                p.script = "stale_ack_probe".into();
                p.w_crash = 0;
                p.w_partition = 0;
                p.w_drop = 0;
                p.w_dup = 0;
                p.proposals = 30;
                p.max_log = 60;
            }
            "s_lazycamp" => {
                p.ids = vec![1, 2, 3, 4];
                p.voters = vec![1, 2, 3];
                p.learners = vec![4];
                p.script = "lazy_campaign".into();
                p.mcspr = Some(8);
                p.conf_changes = 4;
                p.w_crash = 0;
                p.w_partition = 0;
                p.w_drop = 1;
                p.proposals = 20;
                p.max_log = 60;
            }
            "s_jointsplit" => {
                p.ids = vec![1, 2, 3, 4, 5];
                p.voters = vec![1, 2, 3];
                p.learners = vec![4, 5];
                p.script = "joint_lazy_split".into();
                p.joint = true;
                p.w_crash = 0;
                p.w_partition = 0;
                p.w_drop = 0;
                p.w_dup = 1;
                p.proposals = 20;
                p.max_log = 60;
            }
            "leaseread" => {
                p.check_quorum = true;
                p.lease_read = true;
                p.reads = 14;
                p.proposals = 10;
                p.w_partition = 3;
                p.w_crash = 1;
            }
            "s_lagsnap_live" => {
                p.script = "lag_snap".into();
                p.w_crash = 0;
                p.w_partition = 0;
                p.w_dup = 4;
                p.proposals = 24;
                p.max_log = 30;
                p.stabilize_rounds = 50;
            }
            "s_transfer_live" => {
                p.ids = vec![1, 2, 3];
                p.voters = vec![1, 2, 3];
                p.script = "transfer_race".into();
                p.check_quorum = true;
                p.w_crash = 0;
                p.w_partition = 0;
                p.w_drop = 5;
                p.stabilize_rounds = 50;
            }
            "contend" => {
                p.ids = vec![1, 2, 3, 4];
                p.voters = vec![1, 2, 3, 4];
                p.w_campaign = 8;
                p.w_drop = 6;
                p.w_dup = 3;
                p.w_crash = 1;
                p.proposals = 20;
                p.async_pct = 50;
                p.steps = 700;
            }
            "contendpv" => {
                p.ids = vec![1, 2, 3];
                p.voters = vec![1, 2, 3];
                p.pre_vote = true;
                p.w_campaign = 8;
                p.w_drop = 4;
                p.w_dup = 4;
                p.w_crash = 0;
                p.steps = 600;
            }
            "reelect" => {
                p.ids = vec![1, 2, 3, 4, 5];
                p.voters = vec![1, 2, 3, 4, 5];
                p.w_partition = 8;
                p.w_crash = 0;
                p.w_campaign = 2;
                p.async_pct = 60;
                p.steps = 900;
                p.max_down = 2;
            }
            "lease3" => {
                p.pre_vote = true;
                p.check_quorum = true;
                p.steps = 100;
                p.w_crash = 0;
                p.stabilize_rounds = 25;
                p.lease_rounds = 25;
            }
            "lease5" => {
                p.ids = vec![1, 2, 3, 4, 5];
                p.voters = vec![1, 2, 3, 4, 5];
                p.pre_vote = true;
                p.check_quorum = true;
                p.steps = 100;
                p.w_crash = 0;
                p.stabilize_rounds = 25;
                p.lease_rounds = 25;
                p.max_down = 2;
            }
            "live" => {
                p.stabilize_rounds = 60;
                p.w_compact = 3;
                p.transfers = 2;
                p.steps = 400;
                p.randomize_knobs = true;
            }
            _ => return None,
        }
        Some(p)
    }
}

pub struct Sched {
    pub rng: StdRng,
    pub prof: Profile,
    pub blocked: Vec<(u64, u64)>,
    /// (to, message type) pairs that are lost in transit (selective loss used by scripted scenarios)
    pub blocked_types: Vec<(u64, String)>,
    /// (destination, type): such messages stay in flight, neither delivered nor dropped
    pub hold_types: Vec<(u64, String)>,
    /// (from, to, type): such messages stay in flight
    pub hold_from: Vec<(u64, u64, String)>,
    /// (node, kind of step) that the scheduler does not take while a scripted phase lasts
    /// (kinds: "Ready", "Notify", "Apply", "Tick", "Fsync"); the step stays enabled, it is only postponed
    pub frozen: Vec<(u64, &'static str)>,
    /// nodes whose Readies are always handled asynchronously while a scripted phase lasts
    pub force_async: Vec<u64>,
    pub w_apply: u32,
    /// messages that stay in the network for a long time: view-json -> step at which they may be delivered
    pub held: std::collections::HashMap<String, usize>,
    pub seen: std::collections::HashSet<String>,
    pub step_no: usize,
    pub hold_pct: u32,
    pub proposals_left: usize,
    pub conf_left: usize,
    pub reads_left: usize,
    pub transfers_left: usize,
    pub next_payload: u64,
    pub next_ctx: u64,
    pub async_mode: Vec<bool>,
    pub tick_ptr: u64,
    /// choices applied by scripted scenarios (for replay files)
    pub record: Vec<Choice>,
}

pub fn cluster_cfg(prof: &Profile, rng: &mut StdRng) -> ClusterCfg {
    let mut knobs = vec![];
    for _ in &prof.ids {
        let mut k = Knobs {
            pre_vote: prof.pre_vote,
            check_quorum: prof.check_quorum,
            lease_read: prof.lease_read,
            election_tick: 5,
            ..Default::default()
        };
        if prof.randomize_knobs {
            k.max_inflight = *[1usize, 2, 3, 4].choose(rng).unwrap();
            k.max_size_per_msg = *[-1i64, 0, 8, 14].choose(rng).unwrap();
            k.batch_append = rng.gen_bool(0.4);
            k.skip_bcast_commit = rng.gen_bool(0.3);
            k.max_committed_size_per_ready = *[-1i64, 0, 8].choose(rng).unwrap();
            let mu = *[-1i64, 4, 6, 20].choose(rng).unwrap();
            k.max_uncommitted_size = if k.max_size_per_msg < 0 {
                -1
            } else if mu >= 0 && mu < k.max_size_per_msg {
                k.max_size_per_msg
            } else {
                mu
            };
            if rng.gen_bool(0.2) {
                k.max_apply_unpersisted_log_limit = 2;
            }
        }
        if prof.prio_knobs {
            k.priority = rng.gen_range(0..3);
        }
        if prof.batch_append {
            k.batch_append = true;
        }
        if let Some(v) = prof.mcspr {
            k.max_committed_size_per_ready = v;
        }
        if let Some((ms, mu)) = prof.size_knobs {
            k.max_size_per_msg = ms;
            k.max_uncommitted_size = mu;
        }
        knobs.push(k);
    }
    if prof.randomize_knobs && rng.gen_bool(0.3) {
        let i = rng.gen_range(0..knobs.len());
        knobs[i].priority = 2;
    }
    ClusterCfg {
        ids: prof.ids.clone(),
        voters: prof.voters.clone(),
        learners: prof.learners.clone(),
        knobs,
    }
}

impl Sched {
    pub fn new(prof: Profile, seed: u64) -> (Sched, Cluster) {
        let mut rng = StdRng::seed_from_u64(seed);
        let cfg = cluster_cfg(&prof, &mut rng);
        let cl = Cluster::new(cfg);
        let n = prof.ids.len();
        let s = Sched {
            proposals_left: prof.proposals,
            conf_left: prof.conf_changes,
            reads_left: prof.reads,
            transfers_left: prof.transfers,
            async_mode: vec![false; n],
            prof,
            rng,
            blocked: vec![],
            blocked_types: vec![],
            hold_types: vec![],
            hold_from: vec![],
            frozen: vec![],
            force_async: vec![],
            w_apply: 20,
            held: Default::default(),
            seen: Default::default(),
            step_no: 0,
            hold_pct: 4,
            next_payload: 1,
            next_ctx: 1,
            tick_ptr: 0,
            record: vec![],
        };
        (s, cl)
    }

    fn draw_timeout(&mut self, cl: &Cluster, i: usize) -> usize {
        let et = cl.nodes[i].knobs.election_tick;
        self.rng.gen_range(et..2 * et)
    }

    pub fn refresh_timeouts(&mut self, cl: &mut Cluster) {
        for i in 0..cl.nodes.len() {
            if cl.nodes[i].rt_used {
                cl.nodes[i].rt_next = self.draw_timeout(cl, i);
                cl.nodes[i].rt_used = false;
            }
        }
    }

    fn is_frozen(&self, n: u64, kind: &str) -> bool {
        self.frozen.iter().any(|(x, k)| *x == n && *k == kind)
    }

    fn is_blocked(&self, from: u64, to: u64) -> bool {
        self.blocked.contains(&(from, to))
    }

    fn payload(&mut self) -> String {
        let id = self.next_payload;
        self.next_payload += 1;
        let mut s = format!("{}", id);
        let want = if self.prof.payload_var { self.rng.gen_range(1..=self.prof.payload_len + 4) } else { self.prof.payload_len };
        if self.prof.payload_var && s.len() > want {
            s = s[s.len() - want..].to_string();
        }
        while s.len() < want {
            s.insert(0, 'v');
        }
        s
    }

    fn random_cc(&mut self, cl: &Cluster) -> (bool, String, Vec<ChV>) {
        let ids = self.prof.ids.clone();
        let pick = |rng: &mut StdRng| *ids.choose(rng).unwrap();
        let ty = |rng: &mut StdRng| ["V", "L", "R"].choose(rng).unwrap().to_string();
        let _ = cl;
        if self.prof.v1 && self.rng.gen_bool(0.6) {
            let c = ChV {
                t: ty(&mut self.rng),
                id: pick(&mut self.rng),
            };
            return (true, "A".into(), vec![c]);
        }
        if self.prof.joint {
            let r = self.rng.gen_range(0..10);
            if r < 3 {
                // leave joint
                return (false, "A".into(), vec![]);
            }
            let tr = ["A", "I", "E"].choose(&mut self.rng).unwrap().to_string();
            let k = self.rng.gen_range(1..=3);
            let ch = (0..k)
                .map(|_| ChV {
                    t: ty(&mut self.rng),
                    id: pick(&mut self.rng),
                })
                .collect();
            return (false, tr, ch);
        }
        let c = ChV {
            t: ty(&mut self.rng),
            id: pick(&mut self.rng),
        };
        (false, "A".into(), vec![c])
    }

    /// Produces the next choice; None when nothing is enabled.
    pub fn next_choice(&mut self, cl: &Cluster) -> Option<Choice> {
        let mut cands: Vec<(u32, Choice)> = vec![];
        let p = self.prof.clone();
        let down = cl.nodes.iter().filter(|s| s.raw.is_none()).count();
        // occasionally change partitions
        if p.w_partition > 0 && self.rng.gen_range(0..1000) < p.w_partition * 4 {
            if self.blocked.is_empty() {
                let victim = *p.ids.choose(&mut self.rng).unwrap();
                let one_way = self.rng.gen_bool(0.3);
                for o in &p.ids {
                    if *o != victim {
                        self.blocked.push((victim, *o));
                        if !one_way {
                            self.blocked.push((*o, victim));
                        }
                    }
                }
            } else {
                self.blocked.clear();
            }
        }
        let max_last = cl
            .nodes
            .iter()
            .filter_map(|s| s.raw.as_ref())
            .map(|r| r.raft.raft_log.last_index())
            .max()
            .unwrap_or(0);
        for (i, slot) in cl.nodes.iter().enumerate() {
            let n = slot.id;
            let raw = match &slot.raw {
                None => {
                    cands.push((6, Choice::Restart { n, applied: -1 }));
                    // the application restarts from exactly what it had applied (possibly beyond the stored commit index)
                    cands.push((3, Choice::Restart { n, applied: slot.app.applied as i64 }));
                    if self.rng.gen_bool(0.2) {
                        let a = self.rng.gen_range(0..=slot.app.applied) as i64;
                        cands.push((2, Choice::Restart { n, applied: a }));
                    }
                    continue;
                }
                Some(r) => r,
            };
            if p.w_crash > 0 && down < p.max_down {
                cands.push((1, Choice::Crash { n }));
            }
            if !slot.app.pending.is_empty() && !self.is_frozen(n, "Fsync") {
                let nums: Vec<u64> = slot.app.pending.iter().map(|b| b.number).collect();
                let upto = *nums.choose(&mut self.rng).unwrap();
                cands.push((10, Choice::Fsync { n, upto }));
            }
            if slot.app.outstanding.is_some() {
                if self.async_mode[i] || self.force_async.contains(&n) {
                    cands.push((40, Choice::AdvanceAsync { n }));
                } else if self.rng.gen_range(0..100) < p.full_advance_pct {
                    cands.push((40, Choice::Advance { n }));
                } else {
                    cands.push((40, Choice::AdvanceAppend { n }));
                }
                continue;
            }
            // idle node
            if !self.is_frozen(n, "Tick") {
                cands.push((p.w_tick, Choice::Tick { n }));
            }
            if raw.has_ready() && self.is_frozen(n, "Ready") {
            } else if raw.has_ready() {
                cands.push((45, Choice::Ready { n }));
            } else if self.rng.gen_range(0..400) == 0 {
                cands.push((1, Choice::ReadyForce { n }));
            }
            if slot.app.last_durable > slot.app.last_notified && !self.is_frozen(n, "Notify") {
                let number = self
                    .rng
                    .gen_range(slot.app.last_notified + 1..=slot.app.last_durable);
                cands.push((25, Choice::Notify { n, number }));
            }
            if self.is_frozen(n, "Apply") {
            } else if let (Some(f), Some(b)) = (slot.app.apply_queue.front(), slot.app.apply_queue.back())
            {
                let lo = f.index.max(slot.app.applied);
                if b.index >= lo {
                    let k = self.rng.gen_range(lo..=b.index);
                    cands.push((self.w_apply, Choice::Apply { n, k }));
                }
            } else if raw.raft.raft_log.applied < slot.app.applied {
                cands.push((self.w_apply, Choice::Apply { n, k: slot.app.applied }));
            }
            if self.proposals_left > 0 && max_last < p.max_log {
                cands.push((
                    6,
                    Choice::Propose {
                        n,
                        p: String::new(),
                    },
                ));
            }
            if p.w_batch > 0 && self.proposals_left > 1 && max_last + 1 < p.max_log {
                cands.push((p.w_batch, Choice::ProposeBatch { n, ents: vec![] }));
            }
            if self.conf_left > 0 && max_last < p.max_log {
                cands.push((
                    3,
                    Choice::ProposeConf {
                        n,
                        v1: false,
                        tr: String::new(),
                        ch: vec![],
                    },
                ));
            }
            if self.reads_left > 0 {
                cands.push((
                    4,
                    Choice::ReadIndex {
                        n,
                        ctx: String::new(),
                    },
                ));
            }
            if self.transfers_left > 0 {
                let to = *p.ids.choose(&mut self.rng).unwrap();
                cands.push((2, Choice::Transfer { n, to }));
            }
            if p.w_campaign > 0 {
                cands.push((p.w_campaign, Choice::Campaign { n }));
            }
            if self.rng.gen_range(0..8) == 0 {
                let local = self.rng.gen_bool(0.5);
                let ty = if local {
                    *["Hup", "Beat", "Unreachable", "SnapStatus", "CheckQuorum"].choose(&mut self.rng).unwrap()
                } else {
                    *["AppResp", "VoteResp", "HBResp", "PreVoteResp"].choose(&mut self.rng).unwrap()
                };
                let from = if local { *p.ids.choose(&mut self.rng).unwrap() } else { 9 };
                cands.push((1, Choice::Bogus { n, ty: ty.into(), from }));
            }
            if p.w_reqsnap > 0 {
                cands.push((p.w_reqsnap, Choice::RequestSnap { n }));
            }
            if p.w_compact > 0 {
                cands.push((p.w_compact, Choice::MakeSnap { n }));
                let lo = slot.dur.trunc_index + 1;
                let hi = slot.app.applied.min(slot.dur.hs.commit);
                if hi >= lo {
                    let k = self.rng.gen_range(lo..=hi);
                    cands.push((p.w_compact, Choice::Compact { n, k }));
                }
            }
            for (j, ok) in &slot.app.snap_reports {
                cands.push((
                    8,
                    Choice::ReportSnap {
                        n,
                        j: *j,
                        ok: *ok,
                    },
                ));
            }
            if p.w_knob > 0 {
                let which = self.rng.gen_range(0..(if p.group_commit { 10 } else { 5 }));
                let c = match which {
                    5 | 6 => Choice::SetKnob {
                        n,
                        name: format!("group:{}", *p.ids.choose(&mut self.rng).unwrap()),
                        val: self.rng.gen_range(1..3),
                    },
                    7 => Choice::SetKnob {
                        n,
                        name: "group_commit".into(),
                        val: if self.rng.gen_range(0..4) == 0 { 0 } else { 1 },
                    },
                    8 => Choice::SetKnob {
                        n,
                        name: if self.rng.gen_range(0..6) == 0 { "clear_groups".into() } else { "priority".into() },
                        val: self.rng.gen_range(0..3),
                    },
                    9 => Choice::SetKnob {
                        n,
                        name: "max_apply_unpersisted_log_limit".into(),
                        val: self.rng.gen_range(0..3),
                    },
                    0 => Choice::SetKnob {
                        n,
                        name: "batch_append".into(),
                        val: self.rng.gen_range(0..2),
                    },
                    1 => Choice::SetKnob {
                        n,
                        name: "max_committed_size_per_ready".into(),
                        val: *[-1i64, 0, 8].choose(&mut self.rng).unwrap(),
                    },
                    2 => Choice::SetKnob {
                        n,
                        name: "skip_bcast_commit".into(),
                        val: self.rng.gen_range(0..2),
                    },
                    3 => {
                        let j = *p.ids.choose(&mut self.rng).unwrap();
                        Choice::SetKnob {
                            n,
                            name: format!("inflight:{}", j),
                            val: self.rng.gen_range(0..5),
                        }
                    }
                    _ => Choice::Unreachable {
                        n,
                        j: *p.ids.choose(&mut self.rng).unwrap(),
                    },
                };
                cands.push((p.w_knob, c));
            }
        }
        // network
        self.step_no += 1;
        if !cl.net.is_empty() {
            // long delays: a few messages are held back for hundreds of steps and arrive stale
            for m in cl.net.iter() {
                let key = serde_json::to_string(&msg_view(m)).unwrap();
                if self.seen.insert(key.clone()) && self.rng.gen_range(0..100) < self.hold_pct {
                    let d = self.rng.gen_range(80..450);
                    self.held.insert(key, self.step_no + d);
                }
            }
            let k = cl.net.len().min(6);
            for _ in 0..k {
                let idx = self.rng.gen_range(0..cl.net.len());
                let m = &cl.net[idx];
                let mv = msg_view(m);
                let key = serde_json::to_string(&mv).unwrap();
                if let Some(rel) = self.held.get(&key) {
                    if *rel > self.step_no {
                        continue;
                    }
                }
                let to_ok = p.ids.contains(&m.to) && cl.is_up(m.to);
                let idle = to_ok && cl.nodes[cl.slot(m.to)].app.outstanding.is_none();
                if self.hold_types.iter().any(|(t, ty)| *t == m.to && *ty == mv.ty)
                    || self.hold_from.iter().any(|(f, t, ty)| *f == m.from && *t == m.to && *ty == mv.ty)
                {
                    continue;
                }
                let ty_blocked = self.blocked_types.iter().any(|(t, ty)| *t == m.to && *ty == mv.ty);
                if !p.ids.contains(&m.to) || !cl.is_up(m.to) || self.is_blocked(m.from, m.to) || ty_blocked {
                    cands.push((p.w_deliver / 2 + 1, Choice::Drop { m: mv }));
                    continue;
                }
                if idle {
                    cands.push((
                        p.w_deliver,
                        Choice::Deliver {
                            m: mv.clone(),
                            keep: false,
                        },
                    ));
                    if p.w_dup > 0 {
                        cands.push((
                            p.w_dup,
                            Choice::Deliver {
                                m: mv.clone(),
                                keep: true,
                            },
                        ));
                    }
                }
                if p.w_drop > 0 {
                    cands.push((p.w_drop, Choice::Drop { m: mv }));
                }
            }
        }
        if cands.is_empty() {
            return None;
        }
        // two-level choice: first a category (so that no kind of step starves), then inside it by weight
        let cat_of = |c: &Choice| -> usize {
            match c {
                Choice::Deliver { .. } | Choice::Drop { .. } => 0,
                Choice::Ready { .. }
                | Choice::ReadyForce { .. }
                | Choice::Advance { .. }
                | Choice::AdvanceAppend { .. }
                | Choice::AdvanceAsync { .. }
                | Choice::Fsync { .. }
                | Choice::Notify { .. }
                | Choice::Apply { .. }
                | Choice::ReportSnap { .. } => 1,
                Choice::Tick { .. } => 2,
                Choice::Crash { .. } => 4,
                Choice::Restart { .. } => 5,
                _ => 3,
            }
        };
        let has_leader = cl
            .nodes
            .iter()
            .filter_map(|s| s.raw.as_ref())
            .any(|r| r.raft.state == raft::StateRole::Leader);
        let cat_w: [u32; 6] = [
            500,
            360,
            if has_leader { 60 } else { 300 },
            70,
            p.w_crash * 2,
            60,
        ];
        let mut present = [false; 6];
        for (_, c) in &cands {
            present[cat_of(c)] = true;
        }
        let total_c: u32 = (0..6).filter(|k| present[*k]).map(|k| cat_w[k]).sum();
        let mut xc = self.rng.gen_range(0..total_c.max(1));
        let mut cat = 0;
        for k in 0..6 {
            if !present[k] {
                continue;
            }
            if xc < cat_w[k] {
                cat = k;
                break;
            }
            xc -= cat_w[k];
            cat = k;
        }
        let mut cands: Vec<(u32, Choice)> = cands.into_iter().filter(|(_, c)| cat_of(c) == cat).collect();
        if cat == 2 {
            // nodes are ticked in rotation so that their clocks advance at the same rate
            let ids: Vec<u64> = cands
                .iter()
                .filter_map(|(_, c)| if let Choice::Tick { n } = c { Some(*n) } else { None })
                .collect();
            let next = ids.iter().copied().find(|n| *n > self.tick_ptr).unwrap_or(ids[0]);
            self.tick_ptr = next;
            cands = vec![(1, Choice::Tick { n: next })];
        }
        let total: u32 = cands.iter().map(|c| c.0).sum();
        let mut x = self.rng.gen_range(0..total.max(1));
        let mut chosen = None;
        for (w, c) in cands {
            if x < w {
                chosen = Some(c);
                break;
            }
            x -= w;
        }
        let mut c = chosen.unwrap();
        // fill in generated arguments
        match &mut c {
            Choice::Propose { p, .. } => {
                *p = if self.rng.gen_range(0..12) == 0 {
                    String::new()
                } else {
                    self.payload()
                };
                self.proposals_left -= 1;
            }
            Choice::ProposeBatch { ents, .. } => {
                let k = self.rng.gen_range(2..=3);
                for _ in 0..k {
                    let mut e = crate::view::EntryV {
                        ty: "N".into(),
                        ..Default::default()
                    };
                    if self.conf_left > 0 && self.rng.gen_bool(0.3) {
                        let (_, tr, ch) = self.random_cc(cl);
                        e.ty = "C2".into();
                        e.tr = tr;
                        e.ch = ch;
                        e.sz = 1;
                        self.conf_left -= 1;
                    } else {
                        e.p = self.payload();
                    }
                    ents.push(e);
                }
                self.proposals_left = self.proposals_left.saturating_sub(k);
            }
            Choice::ProposeConf { v1, tr, ch, .. } => {
                let (a, b, cc) = self.random_cc(cl);
                *v1 = a;
                *tr = b;
                *ch = cc;
                self.conf_left -= 1;
            }
            Choice::ReadIndex { ctx, .. } => {
                *ctx = format!("r{:02}", self.next_ctx);
                self.next_ctx += 1;
                self.reads_left -= 1;
            }
            Choice::Transfer { .. } => {
                self.transfers_left -= 1;
            }
            Choice::Ready { n } => {
                let i = cl.slot(*n);
                self.async_mode[i] = self.rng.gen_range(0..100) < p.async_pct;
            }
            _ => {}
        }
        Some(c)
    }

    /// Harness-level view of "the suffix has done its job" (only used to end the suffix early; the verdict is
    /// Props!C10_Converged evaluated by TLC on the recorded states).
    fn settled(cl: &Cluster) -> bool {
        let ups: Vec<&crate::sim::NodeSlot> = cl.nodes.iter().filter(|s| s.raw.is_some()).collect();
        let leaders: Vec<&&crate::sim::NodeSlot> =
            ups.iter().filter(|s| s.raw.as_ref().unwrap().raft.state == raft::StateRole::Leader).collect();
        if leaders.len() != 1 || !cl.net.is_empty() {
            return false;
        }
        let l = leaders[0].raw.as_ref().unwrap();
        let (last, commit, term) = (l.raft.raft_log.last_index(), l.raft.raft_log.committed, l.raft.term);
        last == commit
            && ups.iter().filter(|s| l.raft.prs().get(s.id).is_some()).all(|s| {
            let r = s.raw.as_ref().unwrap();
            r.raft.raft_log.last_index() == last
                && r.raft.raft_log.committed == commit
                && r.raft.term == term
                && s.app.applied == commit
                && s.app.outstanding.is_none()
        })
    }

    /// Fault-free stabilisation suffix: restart everything, heal, then run rounds of
    /// (tick every node; process all readies synchronously; deliver everything to quiescence).
    /// At least `rounds / 2` rounds pass before the probe entry is proposed; the suffix ends as soon as the probe
    /// is applied everywhere and the cluster has settled, or after `6 * rounds` rounds (the bound of C10).
    pub fn stabilize(&mut self, cl: &mut Cluster, out: &mut Vec<Event>, rounds: usize, payload: &str) -> bool {
        self.blocked.clear();
        self.blocked_types.clear();
        self.hold_types.clear();
        self.hold_from.clear();
        self.frozen.clear();
        self.force_async.clear();
        crate::sim::PROBE_PAYLOAD.with(|p| *p.borrow_mut() = payload.to_string());
        let ids = cl.cfg.ids.clone();
        let mut push = |cl: &mut Cluster, c: Choice, out: &mut Vec<Event>| {
            if let Some(e) = cl.apply_choice(&c) {
                out.push(e);
                true
            } else {
                false
            }
        };
        for n in &ids {
            if !cl.is_up(*n) {
                push(cl, Choice::Restart { n: *n, applied: -1 }, out);
            }
        }
        let mut probe_done = false;
        let mut since_probe = 0;
        for round in 0..rounds * 6 {
            if probe_done {
                since_probe += 1;
                if since_probe >= 3 && Self::settled(cl) {
                    break;
                }
            }
            if !probe_done && round >= rounds / 2 {
                let leader = ids.iter().copied().find(|n| {
                    cl.is_up(*n)
                        && cl.nodes[cl.slot(*n)].app.outstanding.is_none()
                        && cl.nodes[cl.slot(*n)].raw.as_ref().unwrap().raft.state == raft::StateRole::Leader
                });
                if let Some(n) = leader {
                    let before = out.len();
                    push(cl, Choice::Propose { n, p: payload.to_string() }, out);
                    if out.len() > before && out[out.len() - 1].rk == "ok" {
                        probe_done = true;
                    }
                }
            }
            // deterministic rotating timeouts
            for n in ids.iter() {
                let i = cl.slot(*n);
                let et = cl.nodes[i].knobs.election_tick;
                // seeded pseudo-random timeouts, as the library's own randomisation provides (a fixed
                // rotation can resonate with the election period and livelock the suffix)
                cl.nodes[i].rt_next = self.rng.gen_range(et..2 * et);
                cl.nodes[i].rt_used = false;
            }
            let _ = round;
            for n in &ids {
                if cl.is_up(*n) && cl.nodes[cl.slot(*n)].app.outstanding.is_none() {
                    push(cl, Choice::Tick { n: *n }, out);
                }
            }
            // quiesce
            let mut guard = 0;
            loop {
                guard += 1;
                if guard > 2000 {
                    break;
                }
                let mut progress = false;
                for n in &ids {
                    if !cl.is_up(*n) {
                        continue;
                    }
                    let i = cl.slot(*n);
                    if cl.nodes[i].app.outstanding.is_some() {
                        progress |= push(cl, Choice::AdvanceAppend { n: *n }, out);
                    }
                    if !cl.is_up(*n) {
                        continue;
                    }
                    let a = &cl.nodes[i].app;
                    if a.last_durable < a.last_taken {
                        progress |= push(cl, Choice::Fsync { n: *n, upto: u64::MAX >> 40 }, out);
                    }
                    let a = &cl.nodes[i].app;
                    if a.last_durable > a.last_notified {
                        let number = a.last_durable;
                        progress |= push(cl, Choice::Notify { n: *n, number }, out);
                    }
                    if !cl.is_up(*n) {
                        continue;
                    }
                    if let Some(b) = cl.nodes[i].app.apply_queue.back() {
                        let k = b.index;
                        progress |= push(cl, Choice::Apply { n: *n, k }, out);
                    } else if cl.is_up(*n) {
                        let a = cl.nodes[i].app.applied;
                        if cl.nodes[i].raw.as_ref().unwrap().raft.raft_log.applied < a {
                            progress |= push(cl, Choice::Apply { n: *n, k: a }, out);
                        }
                    }
                    if !cl.is_up(*n) {
                        continue;
                    }
                    let reports = cl.nodes[i].app.snap_reports.clone();
                    for (j, ok) in reports {
                        progress |= push(cl, Choice::ReportSnap { n: *n, j, ok }, out);
                    }
                    if cl.is_up(*n) && cl.nodes[i].raw.as_ref().unwrap().has_ready() {
                        progress |= push(cl, Choice::Ready { n: *n }, out);
                    }
                    // keep a fresh snapshot available so that compacted leaders can serve followers
                    if cl.is_up(*n) {
                        push(cl, Choice::MakeSnap { n: *n }, out);
                    }
                }
                while !cl.net.is_empty() {
                    let m = msg_view(&cl.net[0]);
                    let ok = cl.cfg.ids.contains(&m.to)
                        && cl.is_up(m.to)
                        && cl.nodes[cl.slot(m.to)].app.outstanding.is_none();
                    if ok {
                        if !push(cl, Choice::Deliver { m: m.clone(), keep: false }, out) {
                            push(cl, Choice::Drop { m }, out);
                        }
                    } else if !cl.cfg.ids.contains(&m.to) || !cl.is_up(m.to) {
                        push(cl, Choice::Drop { m }, out);
                    } else {
                        break;
                    }
                    progress = true;
                }
                if !progress {
                    break;
                }
            }
        }
        probe_done
    }

    /// C16 scenario: the leader and a majority exchange heartbeats in lock-step, one round per tick, while the
    /// remaining nodes and every message to or from them are completely free.  Returns (leader, members, term)
    /// or None if the premises (a leader at the maximal term, no transfer pending) do not hold.
    pub fn lease_premise(&self, cl: &Cluster) -> Option<(u64, Vec<u64>, u64)> {
        let mut leader = None;
        let mut max_term = 0;
        for slot in &cl.nodes {
            if let Some(r) = &slot.raw {
                max_term = max_term.max(r.raft.term);
                if r.raft.state == raft::StateRole::Leader {
                    leader = Some((slot.id, r.raft.term, r.raft.lead_transferee.is_some()));
                }
            } else {
                max_term = max_term.max(slot.dur.hs.term);
            }
        }
        let (l, t, tr) = leader?;
        if t < max_term || tr || !cl.net.is_empty() {
            return None;
        }
        let voters: Vec<u64> = cl.nodes[cl.slot(l)].raw.as_ref().unwrap().raft.prs().conf().to_conf_state().voters.clone();
        let mut others: Vec<u64> = voters.iter().copied().filter(|v| *v != l && cl.is_up(*v)).collect();
        others.sort_unstable();
        let need = voters.len() / 2; // members besides the leader
        if others.len() < need {
            return None;
        }
        // members must follow the leader at the same term
        let members: Vec<u64> = others
            .into_iter()
            .filter(|v| {
                let r = cl.nodes[cl.slot(*v)].raw.as_ref().unwrap();
                r.raft.term == t && r.raft.leader_id == l
            })
            .take(need)
            .collect();
        if members.len() < need {
            return None;
        }
        Some((l, members, t))
    }

    fn process_fully(cl: &mut Cluster, n: u64, out: &mut Vec<Event>) {
        for _ in 0..50 {
            if !cl.is_up(n) {
                return;
            }
            let i = cl.slot(n);
            let mut progress = false;
            if cl.nodes[i].app.outstanding.is_some() {
                if let Some(e) = cl.apply_choice(&Choice::AdvanceAppend { n }) {
                    out.push(e);
                    progress = true;
                }
            } else if cl.nodes[i].raw.as_ref().unwrap().has_ready() {
                if let Some(e) = cl.apply_choice(&Choice::Ready { n }) {
                    out.push(e);
                    progress = true;
                }
            } else if let Some(b) = cl.nodes[i].app.apply_queue.back() {
                let k = b.index;
                if let Some(e) = cl.apply_choice(&Choice::Apply { n, k }) {
                    out.push(e);
                    progress = true;
                }
            }
            if !progress {
                return;
            }
        }
    }

    fn free_burst(&mut self, cl: &mut Cluster, out: &mut Vec<Event>, free: &[u64], k: usize) {
        for _ in 0..k {
            let mut cands: Vec<Choice> = vec![];
            for f in free {
                if !cl.is_up(*f) {
                    cands.push(Choice::Restart { n: *f, applied: -1 });
                    continue;
                }
                let i = cl.slot(*f);
                if cl.nodes[i].app.outstanding.is_some() {
                    cands.push(Choice::AdvanceAppend { n: *f });
                    continue;
                }
                for _ in 0..3 {
                    cands.push(Choice::Tick { n: *f });
                }
                if cl.nodes[i].raw.as_ref().unwrap().has_ready() {
                    for _ in 0..3 {
                        cands.push(Choice::Ready { n: *f });
                    }
                }
                if let Some(b) = cl.nodes[i].app.apply_queue.back() {
                    cands.push(Choice::Apply { n: *f, k: b.index });
                }
                if self.rng.gen_range(0..12) == 0 {
                    cands.push(Choice::Campaign { n: *f });
                }
                if self.rng.gen_range(0..25) == 0 {
                    cands.push(Choice::Crash { n: *f });
                }
            }
            for m in cl.net.iter() {
                if free.contains(&m.to) || free.contains(&m.from) {
                    let mv = msg_view(m);
                    let deliverable = cl.cfg.ids.contains(&m.to)
                        && cl.is_up(m.to)
                        && cl.nodes[cl.slot(m.to)].app.outstanding.is_none();
                    if deliverable {
                        cands.push(Choice::Deliver { m: mv.clone(), keep: false });
                        cands.push(Choice::Deliver { m: mv.clone(), keep: false });
                        if self.rng.gen_range(0..6) == 0 {
                            cands.push(Choice::Deliver { m: mv.clone(), keep: true });
                        }
                    }
                    cands.push(Choice::Drop { m: mv });
                }
            }
            if cands.is_empty() {
                return;
            }
            let c = cands[self.rng.gen_range(0..cands.len())].clone();
            let target = match &c {
                Choice::Deliver { m, .. } => Some(m.to),
                _ => None,
            };
            if let Some(e) = cl.apply_choice(&c) {
                out.push(e);
            }
            // majority members process what a free node sent them at once (they stay idle between steps)
            if let Some(t) = target {
                if !free.contains(&t) {
                    Self::process_fully(cl, t, out);
                }
            }
            self.refresh_timeouts(cl);
        }
    }

    fn deliver_between(cl: &mut Cluster, out: &mut Vec<Event>, from: &[u64], to: &[u64]) {
        loop {
            let pick = cl
                .net
                .iter()
                .map(msg_view)
                .find(|m| from.contains(&m.from) && to.contains(&m.to));
            match pick {
                Some(m) => {
                    let t = m.to;
                    if let Some(e) = cl.apply_choice(&Choice::Deliver { m: m.clone(), keep: false }) {
                        out.push(e);
                        Self::process_fully(cl, t, out);
                    } else if let Some(e) = cl.apply_choice(&Choice::Drop { m }) {
                        out.push(e);
                    } else {
                        return;
                    }
                }
                None => return,
            }
        }
    }

    pub fn lease(&mut self, cl: &mut Cluster, out: &mut Vec<Event>, leader: u64, members: &[u64], rounds: usize) {
        let free: Vec<u64> = cl.cfg.ids.iter().copied().filter(|n| *n != leader && !members.contains(n)).collect();
        let burst = 6;
        for _ in 0..rounds {
            if let Some(e) = cl.apply_choice(&Choice::Tick { n: leader }) {
                out.push(e);
            }
            Self::process_fully(cl, leader, out);
            self.free_burst(cl, out, &free, burst);
            Self::deliver_between(cl, out, &[leader], members);
            self.free_burst(cl, out, &free, burst);
            for j in members {
                if let Some(e) = cl.apply_choice(&Choice::Tick { n: *j }) {
                    out.push(e);
                }
                Self::process_fully(cl, *j, out);
            }
            self.free_burst(cl, out, &free, burst);
            for _ in 0..3 {
                Self::deliver_between(cl, out, members, &[leader]);
                Self::deliver_between(cl, out, &[leader], members);
            }
            self.free_burst(cl, out, &free, burst);
            self.refresh_timeouts(cl);
        }
    }

    // ------------------------------------------------------------------ scripted scenarios
    fn run_steps(&mut self, cl: &mut Cluster, out: &mut Vec<Event>, n: usize) {
        for _ in 0..n {
            let c = match self.next_choice(cl) {
                Some(c) => c,
                None => return,
            };
            self.apply_rec(cl, out, c);
        }
    }

    fn apply_rec(&mut self, cl: &mut Cluster, out: &mut Vec<Event>, c: Choice) -> bool {
        for slot in cl.nodes.iter() {
            self.record.push(Choice::SetTimeout { n: slot.id, rt: slot.rt_next as u64 });
        }
        let r = cl.apply_choice(&c);
        self.refresh_timeouts(cl);
        match r {
            Some(e) => {
                let ok = e.rk == "ok";
                out.push(e);
                self.record.push(c);
                ok
            }
            None => false,
        }
    }

    fn leader_of(cl: &Cluster) -> Option<u64> {
        let mut best: Option<(u64, u64)> = None;
        for slot in &cl.nodes {
            if let Some(r) = &slot.raw {
                if r.raft.state == raft::StateRole::Leader && best.map_or(true, |b| r.raft.term > b.1) {
                    best = Some((slot.id, r.raft.term));
                }
            }
        }
        best.map(|b| b.0)
    }

    fn until_leader(&mut self, cl: &mut Cluster, out: &mut Vec<Event>, max: usize) -> Option<u64> {
        for _ in 0..max / 10 {
            if let Some(l) = Self::leader_of(cl) {
                let r = cl.nodes[cl.slot(l)].raw.as_ref().unwrap();
                if r.raft.raft_log.committed >= 1 && r.raft.raft_log.applied >= 1 {
                    return Some(l);
                }
            }
            self.run_steps(cl, out, 10);
        }
        Self::leader_of(cl)
    }

    /// Runs scheduler steps until `pred` holds (checked before every step); false if `max` steps did not suffice.
    fn run_until<F: Fn(&Cluster) -> bool>(&mut self, cl: &mut Cluster, out: &mut Vec<Event>, max: usize, pred: F) -> bool {
        // no new long message holds while a scripted phase waits for something
        let hold = std::mem::replace(&mut self.hold_pct, 0);
        let mut ok = false;
        for _ in 0..max {
            if pred(cl) {
                ok = true;
                break;
            }
            let c = match self.next_choice(cl) {
                Some(c) => c,
                None => break,
            };
            self.apply_rec(cl, out, c);
        }
        self.hold_pct = hold;
        ok || pred(cl)
    }

    /// Applies `c` (a call on node `n`) as soon as the node's application is idle.
    fn idle_then(&mut self, cl: &mut Cluster, out: &mut Vec<Event>, n: u64, c: Choice) -> bool {
        self.run_until(cl, out, 60, |cl| cl.is_up(n) && cl.nodes[cl.slot(n)].app.outstanding.is_none());
        self.do_choice(cl, out, c)
    }

    fn is_leader(cl: &Cluster, n: u64) -> bool {
        cl.nodes[cl.slot(n)].raw.as_ref().map_or(false, |r| r.raft.state == raft::StateRole::Leader)
    }

    fn last_of(cl: &Cluster, n: u64) -> u64 {
        cl.nodes[cl.slot(n)].raw.as_ref().map_or(0, |r| r.raft.raft_log.last_index())
    }

    fn committed_of(cl: &Cluster, n: u64) -> u64 {
        cl.nodes[cl.slot(n)].raw.as_ref().map_or(0, |r| r.raft.raft_log.committed)
    }

    fn others(&mut self, ids: &[u64], l: u64) -> Vec<u64> {
        let mut v: Vec<u64> = ids.iter().copied().filter(|x| *x != l).collect();
        v.shuffle(&mut self.rng);
        v
    }

    fn clear_script_controls(&mut self) {
        self.blocked.clear();
        self.blocked_types.clear();
        self.hold_types.clear();
        self.hold_from.clear();
        self.frozen.clear();
        self.force_async.clear();
    }

    fn isolate(&mut self, group: &[u64], all: &[u64]) {
        self.blocked.clear();
        for a in group {
            for b in all {
                if !group.contains(b) {
                    self.blocked.push((*a, *b));
                    self.blocked.push((*b, *a));
                }
            }
        }
    }

    fn do_choice(&mut self, cl: &mut Cluster, out: &mut Vec<Event>, c: Choice) -> bool {
        self.apply_rec(cl, out, c)
    }

    pub fn run_script(&mut self, cl: &mut Cluster, out: &mut Vec<Event>) {
        let ids = self.prof.ids.clone();
        let name = self.prof.script.clone();
        match name.as_str() {
            "stale_read" | "stale_read_joint" => {
                self.reads_left = 0;
                let l = match self.until_leader(cl, out, 400) {
                    Some(l) => l,
                    None => return,
                };
                if name == "stale_read_joint" {
                    // shrink to {l} through an explicit joint configuration and let the leader apply it
                    let ch: Vec<ChV> = ids.iter().filter(|x| **x != l).map(|x| ChV { t: "R".into(), id: *x }).collect();
                    self.idle_then(cl, out, l, Choice::ProposeConf { n: l, v1: false, tr: "E".into(), ch });
                    self.run_steps(cl, out, 120);
                }
                // the leader (and sometimes a non-voter / one more node) is cut off from the rest
                let mut group = vec![l];
                for x in &ids {
                    if *x != l && self.rng.gen_range(0..3) == 0 && group.len() < 2 {
                        group.push(*x);
                    }
                }
                if self.prof.learners.len() == 1 && self.rng.gen_bool(0.6) && !group.contains(&self.prof.learners[0]) {
                    group.push(self.prof.learners[0]);
                }
                self.isolate(&group, &ids);
                self.proposals_left = self.proposals_left.max(6);
                self.run_steps(cl, out, 220);
                self.reads_left = 8;
                self.run_steps(cl, out, 220);
                self.blocked.clear();
                self.reads_left += 3;
                self.run_steps(cl, out, 120);
            }
            "lag_snap" => {
                self.prof.w_compact = 0;
                if self.until_leader(cl, out, 400).is_none() {
                    return;
                }
                for _ in 0..3 {
                    let l = match Self::leader_of(cl) {
                        Some(l) => l,
                        None => {
                            self.run_steps(cl, out, 60);
                            continue;
                        }
                    };
                    let f = *ids.iter().filter(|x| **x != l).collect::<Vec<_>>().choose(&mut self.rng).unwrap().clone();
                    self.isolate(&[f], &ids);
                    self.proposals_left = self.proposals_left.max(5);
                    self.prof.w_compact = 0;
                    self.run_steps(cl, out, 120);
                    self.prof.w_compact = 10;
                    self.run_steps(cl, out, 70);
                    let bounce = self.rng.gen_bool(0.5);
                    let w_drop = self.prof.w_drop;
                    self.blocked.clear();
                    if bounce {
                        // snapshots for the lagging follower stay in flight while leadership moves away and back
                        self.hold_types = vec![(f, "Snap".into())];
                        self.prof.w_drop = 0;
                    }
                    self.prof.w_reqsnap = 3;
                    self.reads_left = 2;
                    if !bounce && self.rng.gen_bool(0.6) {
                        // the first snapshot for the lagging follower is lost in transit and reported as failed
                        self.hold_from = vec![(l, f, "Snap".into())];
                        if self.run_until(cl, out, 400, |cl| cl.find_match(l, f, "Snap", -1).is_some()) {
                            self.do_choice(cl, out, Choice::DropMatch { from: l, to: f, ty: "Snap".into(), idx: -1 });
                        }
                        self.hold_from.clear();
                    }
                    self.run_steps(cl, out, 60);
                    let in_snapshot = |cl: &Cluster, l: u64, f: u64| {
                        cl.nodes[cl.slot(l)].raw.as_ref().map_or(false, |r| {
                            r.raft.state == raft::StateRole::Leader
                                && r.raft.prs().get(f).map_or(false, |p| p.state == raft::ProgressState::Snapshot)
                        })
                    };
                    if bounce {
                        for _ in 0..8 {
                            if Self::leader_of(cl).map_or(false, |l2| in_snapshot(cl, l2, f)) {
                                break;
                            }
                            self.run_steps(cl, out, 20);
                        }
                    }
                    if bounce && Self::leader_of(cl).map_or(false, |l2| in_snapshot(cl, l2, f)) {
                        if let Some(l2) = Self::leader_of(cl) {
                            self.isolate(&[l2], &ids);
                            for _ in 0..12 {
                                self.run_steps(cl, out, 20);
                                if cl.nodes.iter().any(|s| s.id != l2 && s.raw.as_ref().map_or(false, |r| r.raft.state == raft::StateRole::Leader)) {
                                    break;
                                }
                            }
                            self.blocked.clear();
                            self.run_steps(cl, out, 50);
                            // the in-flight snapshot resolves (delivered or reported lost) while l2 is a follower
                            self.hold_types.clear();
                            self.run_steps(cl, out, 40);
                            for _ in 0..4 {
                                if Self::leader_of(cl) == Some(l2) {
                                    break;
                                }
                                self.idle_then(cl, out, l2, Choice::Campaign { n: l2 });
                                self.run_steps(cl, out, 50);
                            }
                        }
                        self.hold_types.clear();
                        self.prof.w_drop = w_drop;
                    }
                    self.run_steps(cl, out, 140);
                }
            }
            "lag_read" => {
                if self.until_leader(cl, out, 400).is_none() {
                    return;
                }
                for _ in 0..4 {
                    let l = match Self::leader_of(cl) {
                        Some(l) => l,
                        None => {
                            self.run_steps(cl, out, 60);
                            continue;
                        }
                    };
                    let f = *ids.iter().filter(|x| **x != l).collect::<Vec<_>>().choose(&mut self.rng).unwrap().clone();
                    // the follower stays connected (heartbeats, reads) but misses the appends
                    self.blocked_types = vec![(f, "App".into())];
                    self.proposals_left = self.proposals_left.max(4);
                    self.run_steps(cl, out, 90);
                    for k in 0..3 {
                        let ctx = format!("q{}{}", self.next_ctx % 10, k);
                        self.next_ctx += 1;
                        self.idle_then(cl, out, f, Choice::ReadIndex { n: f, ctx });
                        self.run_steps(cl, out, 25);
                    }
                    self.blocked_types.clear();
                    self.run_steps(cl, out, 80);
                }
            }
            "conf_batch" => {
                if self.until_leader(cl, out, 400).is_none() {
                    return;
                }
                self.w_apply = 2;
                for _ in 0..6 {
                    let l = match Self::leader_of(cl) {
                        Some(l) => l,
                        None => {
                            self.run_steps(cl, out, 60);
                            continue;
                        }
                    };
                    let (_, tr, ch) = self.random_cc(cl);
                    let mut e1 = crate::view::EntryV { ty: "N".into(), ..Default::default() };
                    e1.p = self.payload();
                    let e2 = crate::view::EntryV { ty: "C2".into(), tr, ch, sz: 1, ..Default::default() };
                    // nothing else is pending when the batch is proposed
                    let keepc = std::mem::replace(&mut self.conf_left, 0);
                    self.run_until(cl, out, 150, |cl| {
                        let a = &cl.nodes[cl.slot(l)];
                        a.raw.as_ref().map_or(false, |r| r.raft.raft_log.applied == r.raft.raft_log.last_index()) && a.app.outstanding.is_none()
                    });
                    self.conf_left = keepc;
                    let normal_first = self.rng.gen_bool(0.7);
                    let ents = if normal_first { vec![e1, e2] } else { vec![e2, e1] };
                    let before = Self::last_of(cl, l);
                    if normal_first && self.rng.gen_bool(0.7) {
                        // the application applies the normal entry of the batch but not yet the change behind it
                        self.frozen = vec![(l, "Apply")];
                        self.idle_then(cl, out, l, Choice::ProposeBatch { n: l, ents });
                        let handed = self.run_until(cl, out, 150, |cl| {
                            cl.nodes[cl.slot(l)].app.apply_queue.back().map_or(false, |e| e.index >= before + 2)
                                && cl.nodes[cl.slot(l)].app.outstanding.is_none()
                        });
                        if handed && Self::last_of(cl, l) >= before + 2 {
                            self.do_choice(cl, out, Choice::Apply { n: l, k: before + 1 });
                            let (v1, tr, ch) = self.random_cc(cl);
                            self.idle_then(cl, out, l, Choice::ProposeConf { n: l, v1, tr, ch });
                            self.run_steps(cl, out, 30);
                        }
                        self.frozen.clear();
                        self.run_steps(cl, out, 60);
                        continue;
                    }
                    self.idle_then(cl, out, l, Choice::ProposeBatch { n: l, ents });
                    self.run_steps(cl, out, 40);
                    let (v1, tr, ch) = self.random_cc(cl);
                    self.idle_then(cl, out, l, Choice::ProposeConf { n: l, v1, tr, ch });
                    self.run_steps(cl, out, 60);
                    self.w_apply = 20;
                    self.run_steps(cl, out, 40);
                    self.w_apply = 2;
                }
            }
            "transfer_race" => {
                let l = match self.until_leader(cl, out, 400) {
                    Some(l) => l,
                    None => return,
                };
                for round in 0..5 {
                    let l = Self::leader_of(cl).unwrap_or(l);
                    let t = *ids.iter().filter(|x| **x != l).collect::<Vec<_>>().choose(&mut self.rng).unwrap().clone();
                    if round % 2 == 1 {
                        // the target lags: cut it off for a while first
                        self.isolate(&[t], &ids);
                        self.proposals_left = self.proposals_left.max(3);
                        self.run_steps(cl, out, 60);
                        self.blocked.clear();
                    }
                    if round == 2 || round == 4 {
                        // MsgTimeoutNow is delayed; the transfer times out, the leader commits new entries with
                        // the other follower, then the delayed message reaches the (now stale) target
                        let keep = std::mem::replace(&mut self.proposals_left, 0);
                        self.run_steps(cl, out, 40);
                        self.hold_from = vec![(l, t, "TimeoutNow".into()), (l, t, "App".into())];
                        self.idle_then(cl, out, l, Choice::Transfer { n: l, to: t });
                        let aborted = self.run_until(cl, out, 300, |cl| {
                            cl.nodes[cl.slot(l)].raw.as_ref().map_or(true, |r| r.raft.lead_transferee.is_none())
                        });
                        if aborted && Self::is_leader(cl, l) {
                            for _ in 0..2 {
                                let p = self.payload();
                                self.idle_then(cl, out, l, Choice::Propose { n: l, p });
                                self.run_steps(cl, out, 30);
                            }
                            self.hold_from = vec![(l, t, "App".into())];
                            self.run_steps(cl, out, 80);
                        }
                        self.hold_from.clear();
                        self.proposals_left = keep;
                        self.run_steps(cl, out, 120);
                        continue;
                    }
                    if self.rng.gen_bool(0.5) {
                        let p = self.payload();
                        self.idle_then(cl, out, l, Choice::Propose { n: l, p });
                    }
                    self.idle_then(cl, out, l, Choice::Transfer { n: l, to: t });
                    if self.rng.gen_bool(0.4) {
                        // demote or remove the target while the transfer is pending
                        let ty = if self.rng.gen_bool(0.5) { "L" } else { "R" };
                        self.idle_then(cl, out, l, Choice::ProposeConf { n: l, v1: false, tr: "A".into(), ch: vec![ChV { t: ty.into(), id: t }] });
                    }
                    self.prof.w_campaign = if self.rng.gen_bool(0.5) { 4 } else { 0 };
                    self.run_steps(cl, out, 160);
                }
                if self.rng.gen_bool(0.6) {
                    // the prefix ends with a transfer whose MsgTimeoutNow is lost
                    if let Some(l) = Self::leader_of(cl) {
                        let t = *ids.iter().filter(|x| **x != l).collect::<Vec<_>>().choose(&mut self.rng).unwrap().clone();
                        self.prof.w_campaign = 0;
                        self.run_steps(cl, out, 60);
                        self.idle_then(cl, out, l, Choice::Transfer { n: l, to: t });
                        for _ in 0..6 {
                            if cl.find_match(l, t, "TimeoutNow", -1).is_some() {
                                break;
                            }
                            let c = if cl.nodes[cl.slot(l)].app.outstanding.is_some() { Choice::AdvanceAppend { n: l } } else { Choice::Ready { n: l } };
                            self.do_choice(cl, out, c);
                        }
                        self.do_choice(cl, out, Choice::DropMatch { from: l, to: t, ty: "TimeoutNow".into(), idx: -1 });
                    }
                }
            }
            "reelect" => {
                // leadership alternates while entries stay uncommitted on minorities; the deposed leader is
                // elected again later, with whatever it remembers about its peers from its earlier terms
                let _ = self.until_leader(cl, out, 500);
                for _ in 0..5 {
                    let l = match Self::leader_of(cl) {
                        Some(l) => l,
                        None => {
                            self.run_steps(cl, out, 80);
                            continue;
                        }
                    };
                    let o = self.others(&ids, l)[0];
                    // leader + one follower form a minority that keeps accepting proposals
                    self.isolate(&[l, o], &ids);
                    self.proposals_left = self.proposals_left.max(4);
                    self.run_steps(cl, out, 140);
                    // the minority follower rejoins the majority alone, the old leader stays cut off;
                    // the majority only elects (no client traffic), so the minority's tail is cut back
                    self.isolate(&[l], &ids);
                    let keep = std::mem::replace(&mut self.proposals_left, 0);
                    self.run_steps(cl, out, 160);
                    self.blocked.clear();
                    self.run_steps(cl, out, 70);
                    self.proposals_left = keep;
                    if self.rng.gen_bool(0.7) {
                        // the old leader stands again once it has caught up
                        for _ in 0..3 {
                            if Self::is_leader(cl, l) && Self::leader_of(cl) == Some(l) {
                                break;
                            }
                            self.idle_then(cl, out, l, Choice::Campaign { n: l });
                            self.run_steps(cl, out, 50);
                        }
                    } else {
                        self.prof.w_campaign = 3;
                        self.run_steps(cl, out, 120);
                        self.prof.w_campaign = 0;
                    }
                }
            }
            "flow_elect" => {
                let _ = self.until_leader(cl, out, 400);
                for _ in 0..5 {
                    let l = match Self::leader_of(cl) {
                        Some(l) => l,
                        None => {
                            self.run_steps(cl, out, 60);
                            continue;
                        }
                    };
                    // proposals pile up on a leader that cannot commit, then leadership changes
                    self.isolate(&[l], &ids);
                    self.proposals_left = self.proposals_left.max(5);
                    self.run_steps(cl, out, 120);
                    self.blocked.clear();
                    self.run_steps(cl, out, 150);
                }
            }
            "dual_campaign" => {
                // two followers start (pre-)elections at the same moment; every leader that results proposes
                let _ = self.until_leader(cl, out, 400);
                for _ in 0..5 {
                    let l = match Self::leader_of(cl) {
                        Some(l) => l,
                        None => {
                            self.run_steps(cl, out, 80);
                            continue;
                        }
                    };
                    let o = self.others(&ids, l);
                    self.do_choice(cl, out, Choice::Campaign { n: o[0] });
                    self.do_choice(cl, out, Choice::Campaign { n: o[1] });
                    self.run_steps(cl, out, 45);
                    for n in ids.clone() {
                        if cl.is_up(n) && Self::is_leader(cl, n) && cl.nodes[cl.slot(n)].app.outstanding.is_none() {
                            let p = self.payload();
                            self.idle_then(cl, out, n, Choice::Propose { n, p });
                        }
                    }
                    self.run_steps(cl, out, 140);
                }
            }
            "async_overwrite" => {
                // a leader whose asynchronously written entries are still unacknowledged by its own disk is
                // deposed and overwritten exactly there; the persist notifications arrive afterwards
                let _ = self.until_leader(cl, out, 400);
                for _ in 0..4 {
                    let l = match Self::leader_of(cl) {
                        Some(l) => l,
                        None => {
                            self.run_steps(cl, out, 80);
                            continue;
                        }
                    };
                    self.run_steps(cl, out, 40);
                    let keep = std::mem::replace(&mut self.proposals_left, 0);
                    // everything written so far is replicated everywhere, durable and notified
                    let ids2 = ids.clone();
                    self.run_until(cl, out, 300, |cl| {
                        let a = &cl.nodes[cl.slot(l)].app;
                        a.outstanding.is_none()
                            && a.last_notified == a.last_taken
                            && ids2.iter().all(|n| Self::last_of(cl, *n) == Self::last_of(cl, l))
                    });
                    self.force_async = vec![l];
                    self.frozen = vec![(l, "Notify")];
                    self.isolate(&[l], &ids);
                    let term0 = cl.nodes[cl.slot(l)].raw.as_ref().map_or(0, |r| r.raft.term);
                    let k = self.rng.gen_range(1..=2);
                    for _ in 0..k {
                        let p = self.payload();
                        self.idle_then(cl, out, l, Choice::Propose { n: l, p });
                        self.run_steps(cl, out, 12);
                    }
                    // the writes reach the disk, but the node is not told before it has been deposed
                    self.run_until(cl, out, 300, |cl| {
                        cl.nodes.iter().any(|s| s.id != l && s.raw.as_ref().map_or(false, |r| r.raft.state == raft::StateRole::Leader && r.raft.term > term0))
                    });
                    self.run_steps(cl, out, 40);
                    self.blocked.clear();
                    // the deposed leader hears from the new one (its in-memory tail is overwritten as soon as an
                    // append of the new term fits); its own answers wait for the notifications
                    self.run_until(cl, out, 200, |cl| {
                        cl.nodes[cl.slot(l)].raw.as_ref().map_or(false, |r| r.raft.term > term0 && r.raft.raft_log.last_term() > term0)
                    });
                    self.run_steps(cl, out, 12);
                    // now the old notifications arrive, oldest first
                    for _ in 0..3 {
                        let (ln, ld) = {
                            let a = &cl.nodes[cl.slot(l)].app;
                            (a.last_notified, a.last_durable)
                        };
                        if ld > ln && cl.is_up(l) {
                            self.run_until(cl, out, 40, |cl| cl.nodes[cl.slot(l)].app.outstanding.is_none());
                            self.do_choice(cl, out, Choice::Notify { n: l, number: ln + 1 });
                            self.run_steps(cl, out, 10);
                        }
                    }
                    self.frozen.clear();
                    self.run_steps(cl, out, 60);
                    self.force_async.clear();
                    self.proposals_left = keep.max(2);
                    self.run_steps(cl, out, 60);
                }
            }
            "demote_transfer" => {
                // a voter is demoted to learner; it applies the change before the (lazy) leader does, and the
                // leader, still seeing a voter, is asked to transfer leadership to it
                let _ = self.until_leader(cl, out, 400);
                for _ in 0..4 {
                    let l = match Self::leader_of(cl) {
                        Some(l) => l,
                        None => {
                            self.run_steps(cl, out, 80);
                            continue;
                        }
                    };
                    self.run_steps(cl, out, 50);
                    let voters: Vec<u64> = cl.nodes[cl.slot(l)].raw.as_ref().unwrap().raft.prs().conf().voters().ids().iter().collect();
                    let cand: Vec<u64> = voters.iter().copied().filter(|x| *x != l).collect();
                    if cand.len() < 2 {
                        // promote somebody back first
                        let (v1, tr, ch) = self.random_cc(cl);
                        self.idle_then(cl, out, l, Choice::ProposeConf { n: l, v1, tr, ch });
                        self.run_steps(cl, out, 120);
                        continue;
                    }
                    if self.rng.gen_bool(0.5) {
                        // the leader demotes (or removes) itself, keeps leading until it is cut off, is deposed,
                        // and later hears election timeouts and transfer requests as a non-voter
                        let kind = if self.rng.gen_bool(0.6) { "L" } else { "R" };
                        self.idle_then(cl, out, l, Choice::ProposeConf { n: l, v1: false, tr: "A".into(), ch: vec![ChV { t: kind.into(), id: l }] });
                        self.run_until(cl, out, 200, |cl| {
                            cl.nodes[cl.slot(l)].raw.as_ref().map_or(false, |r| !r.raft.prs().conf().voters().contains(l))
                        });
                        self.run_steps(cl, out, 30);
                        self.isolate(&[l], &ids);
                        self.run_until(cl, out, 400, |cl| cl.nodes.iter().any(|s| s.id != l && s.raw.as_ref().map_or(false, |r| r.raft.state == raft::StateRole::Leader)));
                        self.blocked.clear();
                        // it learns that it was deposed, is cut off again and hears nothing for a few timeouts
                        self.run_until(cl, out, 200, |cl| !Self::is_leader(cl, l));
                        self.run_steps(cl, out, 20);
                        self.isolate(&[l], &ids);
                        self.run_steps(cl, out, 220);
                        self.blocked.clear();
                        self.run_steps(cl, out, 100);
                        if let Some(l2) = Self::leader_of(cl) {
                            if l2 != l {
                                self.idle_then(cl, out, l2, Choice::Transfer { n: l2, to: l });
                                self.run_steps(cl, out, 60);
                                // bring it back as a voter
                                self.idle_then(cl, out, l2, Choice::ProposeConf { n: l2, v1: false, tr: "A".into(), ch: vec![ChV { t: "V".into(), id: l }] });
                                self.run_steps(cl, out, 120);
                            }
                        }
                        continue;
                    }
                    let t = *cand.choose(&mut self.rng).unwrap();
                    self.frozen = vec![(l, "Apply")];
                    self.idle_then(cl, out, l, Choice::ProposeConf { n: l, v1: false, tr: "A".into(), ch: vec![ChV { t: "L".into(), id: t }] });
                    self.run_until(cl, out, 200, |cl| {
                        cl.nodes[cl.slot(t)].raw.as_ref().map_or(false, |r| r.raft.prs().conf().learners().contains(&t))
                    });
                    self.idle_then(cl, out, l, Choice::Transfer { n: l, to: t });
                    self.run_steps(cl, out, 70);
                    self.frozen.clear();
                    self.run_steps(cl, out, 120);
                }
            }
            "tail_elect" => {
                // a follower is elected while it holds an uncommitted tail of the previous term; it commits the
                // tail, admits a proposal before its application has taken the Ready handing the tail out, and
                // is then cut off so that the proposal stays uncommitted
                let _ = self.until_leader(cl, out, 400);
                for _ in 0..4 {
                    let l = match Self::leader_of(cl) {
                        Some(l) => l,
                        None => {
                            self.run_steps(cl, out, 80);
                            continue;
                        }
                    };
                    let keep = std::mem::replace(&mut self.proposals_left, 0);
                    self.run_steps(cl, out, 60);
                    let ox = self.others(&ids, l);
                    let (o, x) = (ox[0], ox[1]);
                    // only o can acknowledge; as soon as it holds the new entry the old leader is cut off
                    self.isolate(&[x], &ids);
                    let p = self.payload();
                    self.idle_then(cl, out, l, Choice::Propose { n: l, p });
                    let ok = self.run_until(cl, out, 120, |cl| {
                        Self::last_of(cl, o) == Self::last_of(cl, l) && Self::last_of(cl, o) > Self::committed_of(cl, o)
                    });
                    self.isolate(&[l], &ids);
                    if ok {
                        self.frozen = vec![(l, "Tick")];
                        for _ in 0..3 {
                            if Self::is_leader(cl, o) {
                                break;
                            }
                            self.idle_then(cl, out, o, Choice::Campaign { n: o });
                            self.run_until(cl, out, 60, |cl| Self::is_leader(cl, o));
                        }
                        if Self::is_leader(cl, o) {
                            // until the tail is committed at o; nothing has been handed out yet for it
                            let done = self.run_until(cl, out, 120, |cl| Self::committed_of(cl, o) == Self::last_of(cl, o));
                            if done {
                                let p = self.payload();
                                self.idle_then(cl, out, o, Choice::Propose { n: o, p });
                                self.isolate(&[o], &ids);
                                self.run_steps(cl, out, 40);
                                for _ in 0..3 {
                                    let p = self.payload();
                                    self.idle_then(cl, out, o, Choice::Propose { n: o, p });
                                    self.run_steps(cl, out, 8);
                                }
                            }
                        }
                    }
                    self.clear_script_controls();
                    self.proposals_left = keep;
                    self.run_steps(cl, out, 140);
                }
            }
            "stale_ack_snap" => {
                // old acknowledgements of a follower arrive while the leader waits for a snapshot to reach it
                let _ = self.until_leader(cl, out, 400);
                self.prof.w_compact = 0;
                for _ in 0..4 {
                    let l = match Self::leader_of(cl) {
                        Some(l) => l,
                        None => {
                            self.run_steps(cl, out, 80);
                            continue;
                        }
                    };
                    self.run_steps(cl, out, 50);
                    let f = self.others(&ids, l)[0];
                    let keep = std::mem::replace(&mut self.proposals_left, 0);
                    self.hold_from = vec![(f, l, "AppResp".into())];
                    for _ in 0..2 {
                        let p = self.payload();
                        self.idle_then(cl, out, l, Choice::Propose { n: l, p });
                        self.run_steps(cl, out, 25);
                    }
                    self.idle_then(cl, out, l, Choice::Unreachable { n: l, j: f });
                    self.blocked = vec![(l, f)];
                    for _ in 0..2 {
                        let p = self.payload();
                        self.idle_then(cl, out, l, Choice::Propose { n: l, p });
                        self.run_steps(cl, out, 30);
                    }
                    // the leader's application compacts everything it has applied
                    self.run_until(cl, out, 120, |cl| {
                        let a = &cl.nodes[cl.slot(l)];
                        a.app.applied == Self::last_of(cl, l) && a.dur.hs.commit >= a.app.applied && a.app.outstanding.is_none()
                    });
                    self.do_choice(cl, out, Choice::MakeSnap { n: l });
                    let k = cl.nodes[cl.slot(l)].app.applied.min(cl.nodes[cl.slot(l)].dur.hs.commit);
                    self.do_choice(cl, out, Choice::Compact { n: l, k });
                    self.run_steps(cl, out, 10);
                    self.blocked.clear();
                    self.hold_from.push((l, f, "Snap".into()));
                    let snap = self.run_until(cl, out, 120, |cl| {
                        cl.nodes[cl.slot(l)].raw.as_ref().map_or(false, |r| {
                            r.raft.state == raft::StateRole::Leader
                                && r.raft.prs().get(f).map_or(false, |p| p.state == raft::ProgressState::Snapshot)
                        })
                    });
                    if snap {
                        // the old acknowledgements are released, the snapshot is still on its way
                        self.hold_from = vec![(l, f, "Snap".into())];
                        self.run_steps(cl, out, 50);
                    }
                    self.clear_script_controls();
                    self.proposals_left = keep;
                    self.run_steps(cl, out, 120);
                }
            }
            "reqsnap_race" => {
                // a follower asks for a snapshot while appends for it are in flight; the third voter is slow
                let _ = self.until_leader(cl, out, 400);
                self.prof.w_reqsnap = 0;
                for _ in 0..4 {
                    let l = match Self::leader_of(cl) {
                        Some(l) => l,
                        None => {
                            self.run_steps(cl, out, 80);
                            continue;
                        }
                    };
                    let keep = std::mem::replace(&mut self.proposals_left, 0);
                    self.run_steps(cl, out, 60);
                    let fx = self.others(&ids, l);
                    let (f, x) = (fx[0], fx[1]);
                    // the leader's snapshot must cover everything the follower holds when it asks
                    self.run_until(cl, out, 200, |cl| {
                        let a = &cl.nodes[cl.slot(l)];
                        a.app.applied == Self::last_of(cl, l) && Self::last_of(cl, f) == Self::last_of(cl, l) && a.dur.hs.commit == a.app.applied
                    });
                    self.do_choice(cl, out, Choice::MakeSnap { n: l });
                    self.isolate(&[x], &ids);
                    self.hold_from = vec![(l, f, "App".into()), (l, f, "Snap".into())];
                    for _ in 0..2 {
                        let p = self.payload();
                        self.idle_then(cl, out, l, Choice::Propose { n: l, p });
                        self.run_steps(cl, out, 10);
                    }
                    let req = Self::last_of(cl, f);
                    self.idle_then(cl, out, f, Choice::RequestSnap { n: f });
                    self.run_steps(cl, out, 40);
                    // the appends arrive while the request is pending; the snapshot arrives before the
                    // follower hears anything else from the leader
                    self.hold_from = vec![(l, f, "Snap".into())];
                    self.run_until(cl, out, 80, |cl| Self::last_of(cl, f) > req);
                    self.run_steps(cl, out, 6);
                    self.hold_from = vec![(l, f, "App".into()), (l, f, "HB".into())];
                    self.run_steps(cl, out, 50);
                    self.hold_from.clear();
                    self.run_steps(cl, out, 60);
                    self.clear_script_controls();
                    self.proposals_left = keep;
                    self.run_steps(cl, out, 120);
                }
            }
            "snap_dup" => {
                // a duplicate of a snapshot message reaches the follower after it has caught up and compacted
                let _ = self.until_leader(cl, out, 400);
                self.prof.w_compact = 0;
                for _ in 0..3 {
                    let l = match Self::leader_of(cl) {
                        Some(l) => l,
                        None => {
                            self.run_steps(cl, out, 80);
                            continue;
                        }
                    };
                    let f = self.others(&ids, l)[0];
                    self.isolate(&[f], &ids);
                    self.proposals_left = self.proposals_left.max(4);
                    self.run_steps(cl, out, 110);
                    self.run_until(cl, out, 120, |cl| {
                        let a = &cl.nodes[cl.slot(l)];
                        a.app.applied == Self::committed_of(cl, l) && a.dur.hs.commit >= a.app.applied && a.app.outstanding.is_none()
                    });
                    self.do_choice(cl, out, Choice::MakeSnap { n: l });
                    let k = cl.nodes[cl.slot(l)].app.applied.min(cl.nodes[cl.slot(l)].dur.hs.commit);
                    self.do_choice(cl, out, Choice::Compact { n: l, k });
                    self.run_steps(cl, out, 10);
                    self.blocked.clear();
                    self.hold_from = vec![(l, f, "Snap".into())];
                    let seen = self.run_until(cl, out, 700, |cl| {
                        cl.find_match(l, f, "Snap", -1).is_some() && cl.is_up(f) && cl.nodes[cl.slot(f)].app.outstanding.is_none()
                    });
                    if seen {
                        self.do_choice(cl, out, Choice::DeliverMatch { from: l, to: f, ty: "Snap".into(), idx: -1, keep: true });
                        self.proposals_left = self.proposals_left.max(3);
                        self.run_steps(cl, out, 170);
                        self.run_until(cl, out, 60, |cl| {
                            let a = &cl.nodes[cl.slot(f)];
                            a.app.outstanding.is_none() && a.dur.hs.commit >= a.app.applied
                        });
                        self.do_choice(cl, out, Choice::MakeSnap { n: f });
                        let k = cl.nodes[cl.slot(f)].app.applied.min(cl.nodes[cl.slot(f)].dur.hs.commit);
                        self.do_choice(cl, out, Choice::Compact { n: f, k });
                        self.hold_from.clear();
                        self.run_steps(cl, out, 60);
                    }
                    self.clear_script_controls();
                    self.run_steps(cl, out, 100);
                }
            }
            "lag_flow" => {
                // a follower lags; while it is caught up with size-limited appends the leader keeps accepting
                // proposals of different sizes whose writes are not yet acknowledged by its own disk
                let _ = self.until_leader(cl, out, 400);
                for _ in 0..5 {
                    let l = match Self::leader_of(cl) {
                        Some(l) => l,
                        None => {
                            self.run_steps(cl, out, 80);
                            continue;
                        }
                    };
                    let f = self.others(&ids, l)[0];
                    self.isolate(&[f], &ids);
                    self.proposals_left = self.proposals_left.max(5);
                    self.run_steps(cl, out, 100);
                    self.blocked.clear();
                    self.force_async = vec![l];
                    self.frozen = vec![(l, "Notify")];
                    for _ in 0..self.rng.gen_range(1..=3) {
                        let p = self.payload();
                        self.idle_then(cl, out, l, Choice::Propose { n: l, p });
                    }
                    self.proposals_left = self.proposals_left.max(3);
                    self.run_steps(cl, out, 90);
                    self.frozen.clear();
                    self.force_async.clear();
                    self.run_steps(cl, out, 70);
                }
            }
            "joint_restart" => {
                // a joint configuration that demotes a voter (learners_next non-empty) is entered explicitly;
                // while it lasts a node restarts and a lagging node is brought up to date by snapshot
                let _ = self.until_leader(cl, out, 400);
                for _ in 0..4 {
                    let l = match Self::leader_of(cl) {
                        Some(l) => l,
                        None => {
                            self.run_steps(cl, out, 80);
                            continue;
                        }
                    };
                    let keepc = std::mem::replace(&mut self.conf_left, 0);
                    self.run_until(cl, out, 150, |cl| {
                        let a = &cl.nodes[cl.slot(l)];
                        a.raw.as_ref().map_or(false, |r| r.raft.raft_log.applied == r.raft.raft_log.last_index()) && a.app.outstanding.is_none()
                    });
                    let voters: Vec<u64> = cl.nodes[cl.slot(l)].raw.as_ref().unwrap().raft.prs().conf().voters().ids().iter().collect();
                    let cand: Vec<u64> = voters.iter().copied().filter(|x| *x != l).collect();
                    if cand.len() < 2 {
                        let (v1, tr, ch) = self.random_cc(cl);
                        self.idle_then(cl, out, l, Choice::ProposeConf { n: l, v1, tr, ch });
                        self.run_steps(cl, out, 120);
                        self.conf_left = keepc;
                        continue;
                    }
                    let t = *cand.choose(&mut self.rng).unwrap();
                    let lag = *cand.iter().find(|x| **x != t).unwrap();
                    if self.rng.gen_bool(0.5) {
                        self.isolate(&[lag], &ids);
                    }
                    self.idle_then(cl, out, l, Choice::ProposeConf { n: l, v1: false, tr: "E".into(), ch: vec![ChV { t: "L".into(), id: t }] });
                    let joint = self.run_until(cl, out, 200, |cl| {
                        cl.nodes.iter().filter(|s| s.raw.is_some()).filter(|s| !s.raw.as_ref().unwrap().raft.prs().conf().learners_next().is_empty()).count() >= 2
                    });
                    if joint {
                        let ups: Vec<u64> = cl.nodes.iter().filter(|s| s.raw.is_some() && s.id != lag).map(|s| s.id).collect();
                        let c = *ups.choose(&mut self.rng).unwrap();
                        self.run_until(cl, out, 40, |cl| cl.nodes[cl.slot(c)].app.outstanding.is_none());
                        self.do_choice(cl, out, Choice::Crash { n: c });
                        self.run_steps(cl, out, 10);
                        self.do_choice(cl, out, Choice::Restart { n: c, applied: -1 });
                        self.run_steps(cl, out, 50);
                        if let Some(l2) = Self::leader_of(cl) {
                            // the lagging node can only be caught up by a snapshot taken inside the joint configuration
                            self.run_until(cl, out, 60, |cl| cl.is_up(l2) && cl.nodes[cl.slot(l2)].app.outstanding.is_none());
                            self.do_choice(cl, out, Choice::MakeSnap { n: l2 });
                            let k = cl.nodes[cl.slot(l2)].app.applied.min(cl.nodes[cl.slot(l2)].dur.hs.commit);
                            self.do_choice(cl, out, Choice::Compact { n: l2, k });
                        }
                        self.blocked.clear();
                        self.run_steps(cl, out, 120);
                        // two voters of the incoming set (a majority of it, not of the outgoing set) are cut off
                        // together and one of them stands for election
                        let inc: Vec<u64> = cand.iter().copied().filter(|x| *x != t).chain(std::iter::once(l)).collect();
                        if inc.len() >= 2 && Self::leader_of(cl).is_some() {
                            let lead = Self::leader_of(cl).unwrap();
                            let pair: Vec<u64> = inc.iter().copied().filter(|x| *x != lead && cl.is_up(*x)).take(2).collect();
                            if pair.len() == 2 {
                                self.isolate(&pair, &ids);
                                self.idle_then(cl, out, pair[0], Choice::Campaign { n: pair[0] });
                                self.run_steps(cl, out, 70);
                                self.blocked.clear();
                                self.run_steps(cl, out, 60);
                            }
                        }
                    }
                    self.blocked.clear();
                    if let Some(l2) = Self::leader_of(cl) {
                        self.idle_then(cl, out, l2, Choice::ProposeConf { n: l2, v1: false, tr: "A".into(), ch: vec![] });
                        self.run_steps(cl, out, 90);
                        if let Some(l3) = Self::leader_of(cl) {
                            self.idle_then(cl, out, l3, Choice::ProposeConf { n: l3, v1: false, tr: "A".into(), ch: vec![ChV { t: "V".into(), id: t }] });
                        }
                        self.run_steps(cl, out, 90);
                    }
                    self.conf_left = keepc;
                }
            }
            "stale_match" => {
                // five voters: a leader's minority tail is acknowledged by one follower and later cut back by a new
                // leader; the old leader is elected again and works in a minority with another follower
                let _ = self.until_leader(cl, out, 500);
                for _ in 0..3 {
                    let l = match Self::leader_of(cl) {
                        Some(l) => l,
                        None => {
                            self.run_steps(cl, out, 80);
                            continue;
                        }
                    };
                    let keep = std::mem::replace(&mut self.proposals_left, 0);
                    self.run_steps(cl, out, 60);
                    let os = self.others(&ids, l);
                    let (o, o2) = (os[0], os[1]);
                    // A: the minority {l, o} accepts three proposals; o acknowledges them
                    self.isolate(&[l, o], &ids);
                    for _ in 0..3 {
                        let p = self.payload();
                        self.idle_then(cl, out, l, Choice::Propose { n: l, p });
                    }
                    let acked = self.run_until(cl, out, 200, |cl| {
                        cl.nodes[cl.slot(l)].raw.as_ref().map_or(false, |r| {
                            r.raft.state == raft::StateRole::Leader
                                && r.raft.prs().get(o).map_or(false, |p| p.matched == r.raft.raft_log.last_index())
                        })
                    });
                    let term0 = cl.nodes[cl.slot(l)].raw.as_ref().map_or(0, |r| r.raft.term);
                    let old_last = Self::last_of(cl, l);
                    // B: o rejoins the majority alone; a new leader cuts its tail back
                    self.isolate(&[l], &ids);
                    self.frozen = vec![(l, "Tick")];
                    let cut = acked
                        && self.run_until(cl, out, 500, |cl| {
                            cl.nodes[cl.slot(o)].raw.as_ref().map_or(false, |r| r.raft.term > term0 && r.raft.raft_log.last_term() > term0)
                        });
                    self.run_steps(cl, out, 40);
                    // C: the old leader rejoins and catches up
                    self.frozen.clear();
                    self.blocked.clear();
                    self.run_until(cl, out, 300, |cl| {
                        Self::leader_of(cl).map_or(false, |n| n != l && Self::last_of(cl, l) == Self::last_of(cl, n) && Self::committed_of(cl, l) == Self::last_of(cl, n))
                    });
                    if cut && Self::last_of(cl, l) < old_last {
                        // D: it stands again
                        for _ in 0..4 {
                            if Self::is_leader(cl, l) && Self::leader_of(cl) == Some(l) {
                                break;
                            }
                            self.idle_then(cl, out, l, Choice::Campaign { n: l });
                            self.run_until(cl, out, 80, |cl| Self::is_leader(cl, l) && Self::leader_of(cl) == Some(l));
                        }
                        if Self::is_leader(cl, l) && Self::leader_of(cl) == Some(l) {
                            // E: and works in a minority with another follower
                            self.isolate(&[l, o2], &ids);
                            for _ in 0..2 {
                                let p = self.payload();
                                self.idle_then(cl, out, l, Choice::Propose { n: l, p });
                            }
                            self.run_steps(cl, out, 120);
                            // F: the majority goes on without them
                            self.frozen = vec![(l, "Tick"), (o2, "Tick")];
                            let t1 = cl.nodes[cl.slot(l)].raw.as_ref().map_or(0, |r| r.raft.term);
                            self.proposals_left = 2;
                            self.run_until(cl, out, 500, |cl| {
                                cl.nodes.iter().any(|s| s.id != l && s.id != o2 && s.raw.as_ref().map_or(false, |r| r.raft.state == raft::StateRole::Leader && r.raft.term > t1 && r.raft.raft_log.committed == r.raft.raft_log.last_index()))
                            });
                            self.run_steps(cl, out, 60);
                        }
                    }
                    self.clear_script_controls();
                    self.proposals_left = keep;
                    self.run_steps(cl, out, 150);
                }
            }
            "batch_retx" => {
                // batch_append: appends wait in the leader's outbox while its application is busy; meanwhile the
                // follower is reported unreachable (or rejects) and further proposals arrive
                let _ = self.until_leader(cl, out, 400);
                for _ in 0..6 {
                    let l = match Self::leader_of(cl) {
                        Some(l) => l,
                        None => {
                            self.run_steps(cl, out, 80);
                            continue;
                        }
                    };
                    let keep = std::mem::replace(&mut self.proposals_left, 0);
                    self.run_steps(cl, out, 50);
                    let f = self.others(&ids, l)[0];
                    self.run_until(cl, out, 60, |cl| cl.nodes[cl.slot(l)].app.outstanding.is_none() && !cl.nodes[cl.slot(l)].raw.as_ref().unwrap().has_ready());
                    self.frozen = vec![(l, "Ready")];
                    for _ in 0..self.rng.gen_range(1..=3) {
                        let p = self.payload();
                        self.idle_then(cl, out, l, Choice::Propose { n: l, p });
                    }
                    if self.rng.gen_bool(0.7) {
                        self.idle_then(cl, out, l, Choice::Unreachable { n: l, j: f });
                    }
                    for _ in 0..self.rng.gen_range(1..=2) {
                        let p = self.payload();
                        self.idle_then(cl, out, l, Choice::Propose { n: l, p });
                    }
                    self.run_steps(cl, out, 10);
                    self.frozen.clear();
                    self.proposals_left = keep;
                    self.run_steps(cl, out, 90);
                }
            }
            "stale_candidate" => {
                // a deposed leader with a long tail of its old term learns of the new term but is cut off again before
                // its log is repaired; it then stands for election with a log that is longer but older
                let _ = self.until_leader(cl, out, 400);
                for _ in 0..4 {
                    let l = match Self::leader_of(cl) {
                        Some(l) => l,
                        None => {
                            self.run_steps(cl, out, 80);
                            continue;
                        }
                    };
                    self.run_steps(cl, out, 40);
                    self.isolate(&[l], &ids);
                    let keep = std::mem::replace(&mut self.proposals_left, 0);
                    for _ in 0..3 {
                        let p = self.payload();
                        self.idle_then(cl, out, l, Choice::Propose { n: l, p });
                    }
                    let t0 = cl.nodes[cl.slot(l)].raw.as_ref().map_or(0, |r| r.raft.term);
                    let elected = self.run_until(cl, out, 400, |cl| {
                        cl.nodes.iter().any(|s| s.id != l && s.raw.as_ref().map_or(false, |r| r.raft.state == raft::StateRole::Leader && r.raft.term > t0 && r.raft.raft_log.committed == r.raft.raft_log.last_index()))
                    });
                    if elected {
                        // only heartbeats get through: it steps down, its log stays as it is
                        for n in ids.clone() {
                            if n != l {
                                self.hold_from.push((n, l, "App".into()));
                                self.hold_from.push((n, l, "Snap".into()));
                            }
                        }
                        self.blocked.clear();
                        self.run_until(cl, out, 200, |cl| !Self::is_leader(cl, l));
                        self.isolate(&[l], &ids);
                        let tn = cl.nodes.iter().filter_map(|s| s.raw.as_ref()).map(|r| r.raft.term).max().unwrap_or(0);
                        self.run_until(cl, out, 400, |cl| {
                            cl.nodes[cl.slot(l)].raw.as_ref().map_or(false, |r| r.raft.term > tn && r.raft.state != raft::StateRole::Follower)
                        });
                        self.blocked.clear();
                        self.run_steps(cl, out, 60);
                        self.hold_from.clear();
                    }
                    self.clear_script_controls();
                    self.proposals_left = keep.max(2);
                    self.run_steps(cl, out, 140);
                }
            }
            "async_self_elect" => {
                // a node whose own vote is a quorum restarts, has an asynchronously written Ready in flight, is elected,
                // and the notification of the older Ready arrives before the Ready of the election is durable
                let v = self.prof.voters[0];
                let _ = self.until_leader(cl, out, 400);
                for _ in 0..5 {
                    self.proposals_left = self.proposals_left.max(2);
                    self.run_steps(cl, out, 50);
                    self.run_until(cl, out, 60, |cl| cl.is_up(v) && cl.nodes[cl.slot(v)].app.outstanding.is_none());
                    if !cl.is_up(v) {
                        continue;
                    }
                    let keep = std::mem::replace(&mut self.proposals_left, 0);
                    self.do_choice(cl, out, Choice::Crash { n: v });
                    let back = cl.nodes[cl.slot(v)].dur.trunc_index as i64;
                    // the application re-applies from its last snapshot point: committed entries are handed out again
                    self.do_choice(cl, out, Choice::Restart { n: v, applied: back });
                    self.force_async = vec![v];
                    self.frozen = vec![(v, "Notify"), (v, "Tick")];
                    self.run_steps(cl, out, 14);
                    self.run_until(cl, out, 30, |cl| cl.nodes[cl.slot(v)].app.outstanding.is_none());
                    let in_flight = {
                        let a = &cl.nodes[cl.slot(v)].app;
                        a.last_taken > a.last_notified
                    };
                    // the election: its Ready is taken and written asynchronously, the disk is slow
                    self.frozen = vec![(v, "Notify"), (v, "Fsync")];
                    let lt = cl.nodes[cl.slot(v)].app.last_taken;
                    self.run_until(cl, out, 200, |cl| {
                        Self::is_leader(cl, v) && cl.nodes[cl.slot(v)].app.last_taken > lt && cl.nodes[cl.slot(v)].app.outstanding.is_none()
                    });
                    if in_flight && Self::is_leader(cl, v) {
                        let (ln, ld) = {
                            let a = &cl.nodes[cl.slot(v)].app;
                            (a.last_notified, a.last_durable)
                        };
                        if ld > ln {
                            self.do_choice(cl, out, Choice::Notify { n: v, number: ln + 1 });
                        }
                        self.run_steps(cl, out, 40);
                    }
                    self.clear_script_controls();
                    self.proposals_left = keep;
                    self.run_steps(cl, out, 60);
                }
            }
            "snap_lazy_apply" => {
                // a follower persists a snapshot, its application reports it applied only much later; meanwhile the
                // follower is cut off and its election timeout fires (repeatedly)
                let _ = self.until_leader(cl, out, 400);
                self.prof.w_compact = 0;
                for _ in 0..3 {
                    let l = match Self::leader_of(cl) {
                        Some(l) => l,
                        None => {
                            self.run_steps(cl, out, 80);
                            continue;
                        }
                    };
                    let f = self.others(&ids, l)[0];
                    self.isolate(&[f], &ids);
                    self.proposals_left = self.proposals_left.max(4);
                    self.run_steps(cl, out, 110);
                    self.run_until(cl, out, 120, |cl| {
                        let a = &cl.nodes[cl.slot(l)];
                        a.app.applied == Self::committed_of(cl, l) && a.dur.hs.commit >= a.app.applied && a.app.outstanding.is_none()
                    });
                    self.do_choice(cl, out, Choice::MakeSnap { n: l });
                    let k = cl.nodes[cl.slot(l)].app.applied.min(cl.nodes[cl.slot(l)].dur.hs.commit);
                    self.do_choice(cl, out, Choice::Compact { n: l, k });
                    self.run_steps(cl, out, 10);
                    self.blocked.clear();
                    self.frozen = vec![(f, "Apply")];
                    let before = cl.nodes[cl.slot(f)].dur.trunc_index;
                    let installed = self.run_until(cl, out, 700, |cl| {
                        cl.is_up(f) && cl.nodes[cl.slot(f)].dur.trunc_index > before && cl.nodes[cl.slot(f)].app.outstanding.is_none()
                    });
                    if installed {
                        self.isolate(&[f], &ids);
                        self.run_steps(cl, out, 160);
                        if self.rng.gen_bool(0.5) {
                            self.idle_then(cl, out, f, Choice::Campaign { n: f });
                        }
                        self.run_steps(cl, out, 30);
                    }
                    self.clear_script_controls();
                    self.run_steps(cl, out, 120);
                }
            }
            "stale_ack_probe" => {
                // a duplicate of an old acknowledgement arrives while the leader waits for the answer to a probe
                let _ = self.until_leader(cl, out, 400);
                for _ in 0..5 {
                    let l = match Self::leader_of(cl) {
                        Some(l) => l,
                        None => {
                            self.run_steps(cl, out, 80);
                            continue;
                        }
                    };
                    let keep = std::mem::replace(&mut self.proposals_left, 0);
                    self.run_steps(cl, out, 40);
                    let f = self.others(&ids, l)[0];
                    let p = self.payload();
                    self.idle_then(cl, out, l, Choice::Propose { n: l, p });
                    let seen = self.run_until(cl, out, 80, |cl| {
                        cl.find_match(f, l, "AppResp", -1).is_some() && cl.nodes[cl.slot(l)].app.outstanding.is_none()
                    });
                    if seen {
                        self.do_choice(cl, out, Choice::DeliverMatch { from: f, to: l, ty: "AppResp".into(), idx: -1, keep: true });
                        self.hold_from = vec![(f, l, "AppResp".into()), (f, l, "HBResp".into())];
                        self.run_steps(cl, out, 10);
                        self.idle_then(cl, out, l, Choice::Unreachable { n: l, j: f });
                        self.blocked = vec![(l, f)];
                        let p = self.payload();
                        self.idle_then(cl, out, l, Choice::Propose { n: l, p });
                        self.run_steps(cl, out, 15);
                        // the old copies arrive now
                        self.hold_from = vec![(f, l, "HBResp".into())];
                        self.run_steps(cl, out, 25);
                        let p = self.payload();
                        self.idle_then(cl, out, l, Choice::Propose { n: l, p });
                        self.run_steps(cl, out, 20);
                    }
                    self.clear_script_controls();
                    self.proposals_left = keep;
                    self.run_steps(cl, out, 100);
                }
            }
            "lazy_campaign" => {
                // a follower whose application lags holds a committed backlog "normal entry, membership change";
                // it is asked to campaign (and its election timeout fires) before it has applied the change
                let _ = self.until_leader(cl, out, 400);
                for _ in 0..5 {
                    let l = match Self::leader_of(cl) {
                        Some(l) => l,
                        None => {
                            self.run_steps(cl, out, 80);
                            continue;
                        }
                    };
                    let keepc = std::mem::replace(&mut self.conf_left, 0);
                    let keep = std::mem::replace(&mut self.proposals_left, 0);
                    let ids2 = ids.clone();
                    self.run_until(cl, out, 200, |cl| {
                        ids2.iter().all(|n| !cl.is_up(*n) || {
                            let a = &cl.nodes[cl.slot(*n)];
                            a.raw.as_ref().unwrap().raft.raft_log.applied == Self::last_of(cl, l) && a.app.outstanding.is_none()
                        })
                    });
                    let voters: Vec<u64> = cl.nodes[cl.slot(l)].raw.as_ref().unwrap().raft.prs().conf().voters().ids().iter().collect();
                    let fs: Vec<u64> = voters.iter().copied().filter(|x| *x != l).collect();
                    if fs.is_empty() {
                        self.conf_left = keepc;
                        self.proposals_left = keep;
                        continue;
                    }
                    let f = *fs.choose(&mut self.rng).unwrap();
                    self.frozen = vec![(f, "Apply")];
                    let before = Self::last_of(cl, l);
                    let (_, tr, ch) = self.random_cc(cl);
                    let mut e1 = crate::view::EntryV { ty: "N".into(), ..Default::default() };
                    e1.p = self.payload();
                    let e2 = crate::view::EntryV { ty: "C2".into(), tr, ch, sz: 1, ..Default::default() };
                    self.idle_then(cl, out, l, Choice::ProposeBatch { n: l, ents: vec![e1, e2] });
                    let ready = self.run_until(cl, out, 200, |cl| Self::committed_of(cl, f) >= before + 2 && cl.nodes[cl.slot(f)].app.outstanding.is_none());
                    if ready {
                        if self.rng.gen_bool(0.5) {
                            self.idle_then(cl, out, f, Choice::Campaign { n: f });
                        } else {
                            self.isolate(&[f], &ids);
                            self.run_steps(cl, out, 120);
                            self.blocked.clear();
                        }
                        self.run_steps(cl, out, 30);
                    }
                    self.frozen.clear();
                    self.conf_left = keepc;
                    self.proposals_left = keep;
                    self.run_steps(cl, out, 120);
                }
            }
            "joint_lazy_split" => {
                // voters {l, o1, o2}, learners {4, 5}; an explicit joint change makes {l, 4, 5} the incoming voters. The new
                // members apply it at once, the old ones lazily; then the new members are cut off together, one of them
                // stands for election, the old side commits one more entry whose commit notice is delayed
                let l = match self.until_leader(cl, out, 400) {
                    Some(l) => l,
                    None => return,
                };
                let keep = std::mem::replace(&mut self.proposals_left, 0);
                let keepc = std::mem::replace(&mut self.conf_left, 0);
                let olds: Vec<u64> = self.prof.voters.iter().copied().filter(|x| *x != l).collect();
                let news: Vec<u64> = self.prof.learners.clone();
                if olds.len() != 2 || news.len() != 2 {
                    return;
                }
                let (o1, o2, n1, n2) = (olds[0], olds[1], news[0], news[1]);
                let ids2 = ids.clone();
                self.run_until(cl, out, 300, |cl| {
                    ids2.iter().all(|n| {
                        let a = &cl.nodes[cl.slot(*n)];
                        a.raw.as_ref().map_or(false, |r| r.raft.raft_log.applied == Self::last_of(cl, l) && Self::last_of(cl, *n) == Self::last_of(cl, l)) && a.app.outstanding.is_none()
                    })
                });
                self.frozen = vec![(l, "Apply"), (o1, "Apply"), (o2, "Apply")];
                let ch = vec![
                    ChV { t: "V".into(), id: n1 },
                    ChV { t: "V".into(), id: n2 },
                    ChV { t: "R".into(), id: o1 },
                    ChV { t: "R".into(), id: o2 },
                ];
                self.idle_then(cl, out, l, Choice::ProposeConf { n: l, v1: false, tr: "E".into(), ch });
                let joint = self.run_until(cl, out, 300, |cl| {
                    [n1, n2].iter().all(|n| cl.nodes[cl.slot(*n)].raw.as_ref().map_or(false, |r| !r.raft.prs().conf().voters().verif_halves().1.is_empty()))
                });
                if joint {
                    self.isolate(&[n1, n2], &ids);
                    self.idle_then(cl, out, n1, Choice::Campaign { n: n1 });
                    self.run_steps(cl, out, 60);
                    // the old side commits one more entry; the old followers do not hear that it is committed
                    let p = self.payload();
                    self.idle_then(cl, out, l, Choice::Propose { n: l, p });
                    self.run_until(cl, out, 120, |cl| Self::last_of(cl, o1) == Self::last_of(cl, l) && Self::last_of(cl, o2) == Self::last_of(cl, l));
                    self.hold_from = vec![(l, o1, "App".into()), (l, o1, "HB".into()), (l, o2, "App".into()), (l, o2, "HB".into())];
                    self.run_until(cl, out, 120, |cl| Self::committed_of(cl, l) == Self::last_of(cl, l));
                    // the old leader is cut off; everybody else is connected again
                    self.hold_from.clear();
                    self.isolate(&[l], &ids);
                    self.run_steps(cl, out, 200);
                }
                self.clear_script_controls();
                self.proposals_left = keep.max(2);
                self.conf_left = keepc;
                self.run_steps(cl, out, 200);
            }
            "conf_mix" => {
                let _ = self.until_leader(cl, out, 400);
                for round in 0..6 {
                    self.w_apply = if round % 2 == 0 { 3 } else { 20 };
                    if round % 3 == 2 {
                        // a random minority is cut off for a while (commits must not depend on it wrongly)
                        let a = *ids.choose(&mut self.rng).unwrap();
                        let b = *ids.choose(&mut self.rng).unwrap();
                        self.isolate(&[a, b], &ids);
                    }
                    self.run_steps(cl, out, 130);
                    self.blocked.clear();
                }
            }
            _ => {}
        }
    }
}
