//! Cluster simulator: real `RawNode<SimStorage>`s, the application automaton of DESIGN §2.2,
//! a bag network, durable images and crash/restart. Every public method that performs one
//! step returns the trace `Event` that spec/TraceRaftRs.tla consumes.

use std::cell::RefCell;
use std::collections::{BTreeMap, VecDeque};
use std::panic::{self, AssertUnwindSafe};

use protobuf::Message as PbMessage;
use raft::eraftpb::{
    ConfChange, ConfChangeSingle, ConfChangeTransition, ConfChangeType, ConfChangeV2, Entry,
    EntryType, Message, MessageType, Snapshot,
};
use raft::verif_export::{NEXT_ELECTION_TIMEOUT, TIMEOUT_RESETS};
use raft::{Config, RawNode, Ready, SnapshotStatus};
use serde::{Deserialize, Serialize};
use serde_json::{json, Value};

use crate::storage::{store_view, SimStorage, StoreImage, StoreView, WriteBatch};
use crate::view::*;

thread_local! {
    static LAST_PANIC: RefCell<String> = const { RefCell::new(String::new()) };
}

pub fn install_panic_hook() {
    panic::set_hook(Box::new(|info| {
        let msg = if let Some(s) = info.payload().downcast_ref::<&str>() {
            s.to_string()
        } else if let Some(s) = info.payload().downcast_ref::<String>() {
            s.clone()
        } else {
            "<non-string panic>".to_string()
        };
        let loc = info
            .location()
            .map(|l| format!("{}:{}", l.file(), l.line()))
            .unwrap_or_default();
        LAST_PANIC.with(|p| *p.borrow_mut() = format!("{} @ {}", msg, loc));
    }));
}

fn guarded<R>(f: impl FnOnce() -> R) -> std::result::Result<R, String> {
    match panic::catch_unwind(AssertUnwindSafe(f)) {
        Ok(r) => Ok(r),
        Err(_) => Err(LAST_PANIC.with(|p| p.borrow().clone())),
    }
}

#[derive(Serialize, Deserialize, Clone, Debug)]
pub struct Knobs {
    pub election_tick: usize,
    pub heartbeat_tick: usize,
    pub max_size_per_msg: i64,
    pub max_inflight: usize,
    pub check_quorum: bool,
    pub pre_vote: bool,
    pub skip_bcast_commit: bool,
    pub batch_append: bool,
    pub priority: i64,
    pub max_uncommitted_size: i64,
    pub max_committed_size_per_ready: i64,
    pub max_apply_unpersisted_log_limit: u64,
    pub disable_proposal_forwarding: bool,
    /// ReadOnlyOption::LeaseBased instead of Safe (needs check_quorum)
    #[serde(default)]
    pub lease_read: bool,
}

impl Default for Knobs {
    fn default() -> Self {
        Knobs {
            election_tick: 3,
            heartbeat_tick: 1,
            max_size_per_msg: -1,
            max_inflight: 4,
            check_quorum: false,
            pre_vote: false,
            skip_bcast_commit: false,
            batch_append: false,
            priority: 0,
            max_uncommitted_size: -1,
            max_committed_size_per_ready: -1,
            max_apply_unpersisted_log_limit: 0,
            disable_proposal_forwarding: false,
            lease_read: false,
        }
    }
}

fn unlim(v: i64) -> u64 {
    if v < 0 {
        u64::MAX
    } else {
        v as u64
    }
}

thread_local! {
    /// payload of the entry proposed during the current stabilisation phase (AppView.hasProbe looks for it)
    pub static PROBE_PAYLOAD: std::cell::RefCell<String> = std::cell::RefCell::new("zz".to_string());
}

#[derive(Default)]
pub struct AppState {
    pub outstanding: Option<Ready>,
    pub outstanding_number: u64,
    pub pending: Vec<WriteBatch>,
    pub held: Vec<(u64, Vec<Message>)>,
    pub last_taken: u64,
    pub last_durable: u64,
    pub last_notified: u64,
    pub apply_queue: VecDeque<Entry>,
    pub applied: u64,
    /// applied normal payloads (index, payload)
    pub sm: Vec<(u64, String)>,
    pub sm_base: u64,
    pub conf_hist: BTreeMap<u64, ConfV>,
    pub snap_reports: Vec<(u64, bool)>,
    pub incarnation: u64,
}

#[derive(Serialize, Clone, Debug, Default, PartialEq)]
pub struct HeldV {
    pub number: u64,
    pub msgs: Vec<MsgV>,
}

#[derive(Serialize, Clone, Debug, Default, PartialEq)]
pub struct AppView {
    pub outstanding: u64,
    pub pending: Vec<u64>,
    pub held: Vec<HeldV>,
    #[serde(rename = "lastTaken")]
    pub last_taken: u64,
    #[serde(rename = "lastDurable")]
    pub last_durable: u64,
    #[serde(rename = "lastNotified")]
    pub last_notified: u64,
    pub queue: Vec<EntryV>,
    pub applied: u64,
    pub sm: String,
    #[serde(rename = "hasProbe")]
    pub has_probe: bool,
    pub conf: ConfV,
    pub incarnation: u64,
}

pub struct NodeSlot {
    pub id: u64,
    pub knobs: Knobs,
    pub raw: Option<RawNode<SimStorage>>,
    /// write cache image while the node is down (mirrors raw.store().img when up)
    pub dur: StoreImage,
    pub app: AppState,
    pub rt_next: usize,
    /// true if a timeout reset consumed rt_next since it was last set
    pub rt_used: bool,
    pub panicked: bool,
}

#[derive(Serialize, Clone, Debug, Default)]
pub struct ReadyV {
    pub number: u64,
    #[serde(rename = "hasHS")]
    pub has_hs: bool,
    pub hs: HsV,
    #[serde(rename = "hasSS")]
    pub has_ss: bool,
    pub ents: Vec<EntryV>,
    pub snap: SnapV,
    pub committed: Vec<EntryV>,
    pub msgs: Vec<MsgV>,
    pub pmsgs: Vec<MsgV>,
    #[serde(rename = "readStates")]
    pub read_states: Vec<ReadStateV>,
    #[serde(rename = "mustSync")]
    pub must_sync: bool,
    /// LightReady only: commit index (0 = none)
    #[serde(rename = "commitIndex")]
    pub commit_index: u64,
}

#[derive(Serialize, Clone, Debug)]
pub struct Event {
    pub seq: u64,
    pub ev: String,
    pub n: u64,
    pub a: Value,
    pub r: String,
    pub rk: String,
    pub up: bool,
    pub hr0: bool,
    pub hr: bool,
    pub s: NodeView,
    pub gen: Vec<MsgV>,
    pub out: Vec<MsgV>,
    pub rd: ReadyV,
    pub full: bool,
    pub st: StoreView,
    pub du: StoreView,
    pub ap: AppView,
}

#[derive(Serialize, Deserialize, Clone, Debug, PartialEq)]
#[serde(tag = "ev")]
pub enum Choice {
    Tick { n: u64 },
    Deliver { m: MsgV, keep: bool },
    Drop { m: MsgV },
    /// deliver / drop the first message in the network matching (from, to, ty); idx/term = -1 match anything
    DeliverMatch { from: u64, to: u64, ty: String, idx: i64, keep: bool },
    DropMatch { from: u64, to: u64, ty: String, idx: i64 },
    /// deliver / drop the message identified by the key TLC prints in schedules
    DeliverSpec { m: MsgKey, keep: bool },
    DropSpec { m: MsgKey },
    Propose { n: u64, p: String },
    ProposeBatch { n: u64, ents: Vec<EntryV> },
    ProposeConf { n: u64, v1: bool, tr: String, ch: Vec<ChV> },
    ReadIndex { n: u64, ctx: String },
    Transfer { n: u64, to: u64 },
    Campaign { n: u64 },
    Ping { n: u64 },
    Unreachable { n: u64, j: u64 },
    ReportSnap { n: u64, j: u64, ok: bool },
    RequestSnap { n: u64 },
    Ready { n: u64 },
    ReadyForce { n: u64 },
    Advance { n: u64 },
    AdvanceAppend { n: u64 },
    AdvanceAsync { n: u64 },
    Fsync { n: u64, upto: u64 },
    Notify { n: u64, number: u64 },
    Apply { n: u64, k: u64 },
    Compact { n: u64, k: u64 },
    MakeSnap { n: u64 },
    Crash { n: u64 },
    Restart { n: u64, applied: i64 },
    SetKnob { n: u64, name: String, val: i64 },
    /// a message that must be refused: a local-only type, or a response from a node that is not tracked
    Bogus { n: u64, ty: String, from: u64 },
    /// set the randomized election timeout that node n will draw at its next reset
    SetTimeout { n: u64, rt: u64 },
}

#[derive(Serialize, Deserialize, Clone, Debug, PartialEq)]
pub struct MsgKey {
    pub from: u64,
    pub to: u64,
    pub ty: String,
    pub term: u64,
    pub idx: u64,
    pub lt: u64,
    pub commit: u64,
    pub rej: bool,
    pub hint: u64,
    pub ne: usize,
    pub ctx: String,
    pub si: u64,
}

impl MsgKey {
    pub fn matches(&self, m: &MsgV) -> bool {
        self.from == m.from
            && self.to == m.to
            && self.ty == m.ty
            && self.term == m.term
            && self.idx == m.idx
            && self.lt == m.lt
            && self.commit == m.commit
            && self.rej == m.rej
            && self.hint == m.hint
            && self.ne == m.ents.len()
            && self.ctx == m.ctx
            && self.si == m.snap.i
    }
}

#[derive(Serialize, Deserialize, Clone, Debug)]
pub struct ClusterCfg {
    pub ids: Vec<u64>,
    pub voters: Vec<u64>,
    pub learners: Vec<u64>,
    pub knobs: Vec<Knobs>,
}

pub struct Cluster {
    pub cfg: ClusterCfg,
    pub nodes: Vec<NodeSlot>,
    pub net: Vec<Message>,
    pub seq: u64,
    pub logger: slog::Logger,
}

fn hist_conf_at(hist: &BTreeMap<u64, ConfV>, idx: u64) -> ConfV {
    hist.range(..=idx)
        .next_back()
        .map(|(_, c)| c.clone())
        .unwrap_or_default()
}

pub fn make_cc_v2(tr: &str, ch: &[ChV]) -> ConfChangeV2 {
    let mut cc = ConfChangeV2::default();
    cc.set_transition(match tr {
        "I" => ConfChangeTransition::Implicit,
        "E" => ConfChangeTransition::Explicit,
        _ => ConfChangeTransition::Auto,
    });
    let singles: Vec<ConfChangeSingle> = ch
        .iter()
        .map(|c| {
            let mut s = ConfChangeSingle::default();
            s.node_id = c.id;
            s.set_change_type(match c.t.as_str() {
                "V" => ConfChangeType::AddNode,
                "L" => ConfChangeType::AddLearnerNode,
                _ => ConfChangeType::RemoveNode,
            });
            s
        })
        .collect();
    cc.set_changes(singles.into());
    cc
}

pub fn make_cc_v1(ch: &ChV) -> ConfChange {
    let mut cc = ConfChange::default();
    cc.node_id = ch.id;
    cc.set_change_type(match ch.t.as_str() {
        "V" => ConfChangeType::AddNode,
        "L" => ConfChangeType::AddLearnerNode,
        _ => ConfChangeType::RemoveNode,
    });
    cc
}

pub fn entry_from_view(v: &EntryV) -> Entry {
    let mut e = Entry::default();
    e.index = v.i;
    e.term = v.t;
    match v.ty.as_str() {
        "N" => {
            e.set_entry_type(EntryType::EntryNormal);
            e.data = v.p.clone().into_bytes().into();
        }
        "C1" => {
            e.set_entry_type(EntryType::EntryConfChange);
            if let Some(c) = v.ch.first() {
                e.data = make_cc_v1(c).write_to_bytes().unwrap().into();
            }
        }
        _ => {
            e.set_entry_type(EntryType::EntryConfChangeV2);
            if !(v.tr == "A" && v.ch.is_empty()) || v.sz > 0 {
                e.data = make_cc_v2(&v.tr, &v.ch).write_to_bytes().unwrap().into();
            }
        }
    }
    e
}

impl Cluster {
    pub fn new(cfg: ClusterCfg) -> Self {
        let logger = slog::Logger::root(slog::Discard, slog::o!());
        let mut c = Cluster {
            cfg: cfg.clone(),
            nodes: vec![],
            net: vec![],
            seq: 0,
            logger,
        };
        for (k, id) in cfg.ids.iter().enumerate() {
            let mut img = StoreImage::default();
            // every node, member or not, is initialised with the same ConfState
            // ("You should use the same input to initialize all nodes")
            let _ = id;
            {
                let mut v = cfg.voters.clone();
                v.sort_unstable();
                let mut l = cfg.learners.clone();
                l.sort_unstable();
                img.conf.set_voters(v);
                img.conf.set_learners(l);
            }
            let mut app = AppState::default();
            app.conf_hist.insert(0, conf_view(&img.conf));
            c.nodes.push(NodeSlot {
                id: *id,
                knobs: cfg.knobs[k].clone(),
                raw: None,
                dur: img,
                app,
                rt_next: cfg.knobs[k].election_tick,
                rt_used: false,
                panicked: false,
            });
        }
        c
    }

    pub fn slot(&self, n: u64) -> usize {
        self.cfg.ids.iter().position(|x| *x == n).expect("unknown node id")
    }

    pub fn is_up(&self, n: u64) -> bool {
        self.nodes[self.slot(n)].raw.is_some()
    }

    fn config_of(slot: &NodeSlot, applied: u64) -> Config {
        let k = &slot.knobs;
        Config {
            id: slot.id,
            election_tick: k.election_tick,
            heartbeat_tick: k.heartbeat_tick,
            applied,
            max_size_per_msg: unlim(k.max_size_per_msg),
            max_inflight_msgs: k.max_inflight,
            check_quorum: k.check_quorum,
            pre_vote: k.pre_vote,
            skip_bcast_commit: k.skip_bcast_commit,
            batch_append: k.batch_append,
            priority: k.priority,
            max_uncommitted_size: unlim(k.max_uncommitted_size),
            max_committed_size_per_ready: unlim(k.max_committed_size_per_ready),
            max_apply_unpersisted_log_limit: k.max_apply_unpersisted_log_limit,
            disable_proposal_forwarding: k.disable_proposal_forwarding,
            read_only_option: if k.lease_read { raft::ReadOnlyOption::LeaseBased } else { raft::ReadOnlyOption::Safe },
            ..Default::default()
        }
    }

    fn app_view(slot: &NodeSlot) -> AppView {
        let a = &slot.app;
        AppView {
            outstanding: if a.outstanding.is_some() {
                a.outstanding_number
            } else {
                0
            },
            pending: a.pending.iter().map(|b| b.number).collect(),
            held: a
                .held
                .iter()
                .map(|(n, ms)| HeldV {
                    number: *n,
                    msgs: msgs_view(ms),
                })
                .collect(),
            last_taken: a.last_taken,
            last_durable: a.last_durable,
            last_notified: a.last_notified,
            queue: a.apply_queue.iter().map(entry_view).collect(),
            applied: a.applied,
            sm: a
                .sm
                .iter()
                .map(|(k, p)| format!("{}:{}", k, p))
                .collect::<Vec<_>>()
                .join(","),
            has_probe: PROBE_PAYLOAD.with(|pp| a.sm.iter().any(|(_, p)| *p == *pp.borrow())),
            conf: hist_conf_at(&a.conf_hist, a.applied),
            incarnation: a.incarnation,
        }
    }

    fn stor_view(slot: &NodeSlot) -> StoreView {
        match &slot.raw {
            Some(r) => store_view(&r.store().img),
            None => store_view(&slot.dur),
        }
    }

    /// Build the event record after a step on node n.
    #[allow(clippy::too_many_arguments)]
    fn event(
        &mut self,
        ev: &str,
        n: u64,
        a: Value,
        r: String,
        hr0: bool,
        gen: Vec<MsgV>,
        out: Vec<MsgV>,
        rd: ReadyV,
        full: bool,
    ) -> Event {
        self.seq += 1;
        let (up, hr, s, st, du, ap) = if n == 0 {
            (
                false,
                false,
                NodeView::default(),
                StoreView::default(),
                StoreView::default(),
                AppView::default(),
            )
        } else {
            let slot = &self.nodes[self.slot(n)];
            let (up, hr, s) = match &slot.raw {
                Some(raw) => (true, raw.has_ready(), project(raw)),
                None => (false, false, NodeView::default()),
            };
            (
                up,
                hr,
                s,
                Self::stor_view(slot),
                store_view(&slot.dur),
                Self::app_view(slot),
            )
        };
        let rk = if r.starts_with("panic") {
            "panic"
        } else if r.starts_with("storerr") {
            "storerr"
        } else if r.starts_with("err") {
            "err"
        } else {
            "ok"
        }
        .to_string();
        Event {
            seq: self.seq,
            ev: ev.into(),
            n,
            a,
            r,
            rk,
            up,
            hr0,
            hr,
            s,
            gen,
            out,
            rd,
            full,
            st,
            du,
            ap,
        }
    }

    fn on_panic(&mut self, n: u64) {
        let i = self.slot(n);
        let slot = &mut self.nodes[i];
        slot.raw = None;
        slot.panicked = true;
        Self::lose_volatile(slot);
    }

    fn lose_volatile(slot: &mut NodeSlot) {
        slot.app.outstanding = None;
        slot.app.pending.clear();
        slot.app.held.clear();
        slot.app.apply_queue.clear();
        slot.app.snap_reports.clear();
    }

    /// Runs a call on node n under catch_unwind with the deterministic timeout source.
    /// Returns (result string, generated messages).
    fn call<R>(
        &mut self,
        n: u64,
        f: impl FnOnce(&mut RawNode<SimStorage>) -> R,
        fmt: impl FnOnce(&R) -> String,
    ) -> (String, Vec<MsgV>, Option<R>) {
        let i = self.slot(n);
        let rt = self.nodes[i].rt_next;
        NEXT_ELECTION_TIMEOUT.with(|c| c.set(rt));
        let before_resets = TIMEOUT_RESETS.with(|c| c.get());
        let raw = self.nodes[i].raw.as_mut().expect("node is down");
        let pre_msgs = raw.raft.msgs.len();
        let res = guarded(|| f(raw));
        NEXT_ELECTION_TIMEOUT.with(|c| c.set(0));
        if TIMEOUT_RESETS.with(|c| c.get()) != before_resets {
            self.nodes[i].rt_used = true;
        }
        match res {
            Ok(r) => {
                let raw = self.nodes[i].raw.as_ref().unwrap();
                let gen = if raw.raft.msgs.len() >= pre_msgs {
                    msgs_view(&raw.raft.msgs[pre_msgs..])
                } else {
                    msgs_view(&raw.raft.msgs)
                };
                (fmt(&r), gen, Some(r))
            }
            Err(p) => {
                self.on_panic(n);
                (format!("panic: {}", p), vec![], None)
            }
        }
    }

    pub fn timeout_resets() -> u64 {
        TIMEOUT_RESETS.with(|c| c.get())
    }

    fn hr0(&self, n: u64) -> bool {
        self.nodes[self.slot(n)]
            .raw
            .as_ref()
            .map(|r| r.has_ready())
            .unwrap_or(false)
    }

    fn res_fmt(r: &raft::Result<()>) -> String {
        match r {
            Ok(()) => "ok".into(),
            Err(e) => format!("err: {:?}", e),
        }
    }

    fn send(&mut self, ms: Vec<Message>) -> Vec<MsgV> {
        let v = msgs_view(&ms);
        for m in ms {
            self.net.push(m);
        }
        v
    }

    pub fn find_match(&self, from: u64, to: u64, ty: &str, idx: i64) -> Option<MsgV> {
        self.net.iter().map(msg_view).find(|m| {
            m.from == from && m.to == to && m.ty == ty && (idx < 0 || m.idx == idx as u64)
        })
    }

    pub fn find_in_net(&self, m: &MsgV) -> Option<usize> {
        self.net.iter().position(|x| &msg_view(x) == m)
    }

    // ------------------------------------------------------------------ steps

    pub fn init_all(&mut self) -> Vec<Event> {
        let ids = self.cfg.ids.clone();
        let mut evs = vec![];
        for n in ids {
            evs.push(self.restart_inner(n, -1, "Init"));
        }
        evs
    }

    pub fn apply_choice(&mut self, c: &Choice) -> Option<Event> {
        match c.clone() {
            Choice::Tick { n } => self.simple_call(n, "Tick", json!({}), |r| {
                r.tick();
                Ok(())
            }),
            Choice::Deliver { m, keep } => self.deliver(&m, keep),
            Choice::DeliverMatch { from, to, ty, idx, keep } => {
                let m = self.find_match(from, to, &ty, idx)?;
                self.deliver(&m, keep)
            }
            Choice::DeliverSpec { m, keep } => {
                let mv = self.net.iter().map(msg_view).find(|x| m.matches(x))?;
                self.deliver(&mv, keep)
            }
            Choice::DropSpec { m } => {
                let mv = self.net.iter().map(msg_view).find(|x| m.matches(x))?;
                self.apply_choice(&Choice::Drop { m: mv })
            }
            Choice::DropMatch { from, to, ty, idx } => {
                let m = self.find_match(from, to, &ty, idx)?;
                self.apply_choice(&Choice::Drop { m })
            }
            Choice::Drop { m } => {
                let idx = self.find_in_net(&m)?;
                let msg = self.net.remove(idx);
                if msg.get_msg_type() == MessageType::MsgSnapshot && self.is_up(msg.from) {
                    let i = self.slot(msg.from);
                    self.nodes[i].app.snap_reports.push((msg.to, false));
                }
                Some(self.event(
                    "Drop",
                    0,
                    json!({ "m": m }),
                    "ok".into(),
                    false,
                    vec![],
                    vec![],
                    ReadyV::default(),
                    false,
                ))
            }
            Choice::Propose { n, p } => self.simple_call(n, "Propose", json!({ "p": p, "sz": p.len() }), |r| {
                r.propose(vec![], p.clone().into_bytes())
            }),
            Choice::ProposeBatch { n, ents } => {
                let mut m = Message::default();
                m.set_msg_type(MessageType::MsgPropose);
                m.from = n;
                let es: Vec<Entry> = ents
                    .iter()
                    .map(|v| {
                        let mut e = entry_from_view(v);
                        e.index = 0;
                        e.term = 0;
                        e
                    })
                    .collect();
                let views: Vec<EntryV> = es.iter().map(entry_view).collect();
                m.set_entries(es.into());
                self.simple_call(n, "ProposeBatch", json!({ "ents": views }), |r| r.step(m))
            }
            Choice::ProposeConf { n, v1, tr, ch } => {
                let sz = if v1 {
                    make_cc_v1(ch.first()?).write_to_bytes().unwrap().len()
                } else {
                    make_cc_v2(&tr, &ch).write_to_bytes().unwrap().len()
                };
                let a = json!({"v1": v1, "tr": tr, "ch": ch, "sz": sz});
                if v1 {
                    let cc = make_cc_v1(ch.first()?);
                    self.simple_call(n, "ProposeConf", a, |r| r.propose_conf_change(vec![], cc))
                } else {
                    let cc = make_cc_v2(&tr, &ch);
                    self.simple_call(n, "ProposeConf", a, |r| r.propose_conf_change(vec![], cc))
                }
            }
            Choice::ReadIndex { n, ctx } => {
                self.simple_call(n, "ReadIndex", json!({ "ctx": ctx }), |r| {
                    r.read_index(ctx.clone().into_bytes());
                    Ok(())
                })
            }
            Choice::Transfer { n, to } => {
                self.simple_call(n, "Transfer", json!({ "to": to }), |r| {
                    r.transfer_leader(to);
                    Ok(())
                })
            }
            Choice::Campaign { n } => self.simple_call(n, "Campaign", json!({}), |r| r.campaign()),
            Choice::Bogus { n, ty, from } => {
                let mt = match ty.as_str() {
                    "Hup" => MessageType::MsgHup,
                    "Beat" => MessageType::MsgBeat,
                    "Unreachable" => MessageType::MsgUnreachable,
                    "SnapStatus" => MessageType::MsgSnapStatus,
                    "CheckQuorum" => MessageType::MsgCheckQuorum,
                    "AppResp" => MessageType::MsgAppendResponse,
                    "VoteResp" => MessageType::MsgRequestVoteResponse,
                    "HBResp" => MessageType::MsgHeartbeatResponse,
                    _ => MessageType::MsgRequestPreVoteResponse,
                };
                let term = if self.is_up(n) {
                    self.nodes[self.slot(n)].raw.as_ref().unwrap().raft.term
                } else {
                    0
                };
                let mut m = Message::default();
                m.set_msg_type(mt);
                m.from = from;
                m.to = n;
                m.term = term;
                self.simple_call(n, "Bogus", json!({"ty": ty, "from": from, "term": term}), |r| r.step(m))
            }
            Choice::Ping { n } => self.simple_call(n, "Ping", json!({}), |r| {
                r.ping();
                Ok(())
            }),
            Choice::Unreachable { n, j } => {
                self.simple_call(n, "Unreachable", json!({ "j": j }), |r| {
                    r.report_unreachable(j);
                    Ok(())
                })
            }
            Choice::ReportSnap { n, j, ok } => {
                let i = self.slot(n);
                if let Some(p) = self.nodes[i]
                    .app
                    .snap_reports
                    .iter()
                    .position(|x| *x == (j, ok))
                {
                    self.nodes[i].app.snap_reports.remove(p);
                }
                self.simple_call(n, "ReportSnap", json!({"j": j, "ok": ok}), |r| {
                    r.report_snapshot(
                        j,
                        if ok {
                            SnapshotStatus::Finish
                        } else {
                            SnapshotStatus::Failure
                        },
                    );
                    Ok(())
                })
            }
            Choice::RequestSnap { n } => {
                self.simple_call(n, "RequestSnap", json!({}), |r| r.request_snapshot())
            }
            Choice::Ready { n } => self.ready(n, false),
            Choice::ReadyForce { n } => self.ready(n, true),
            Choice::Advance { n } => self.advance(n, "Advance"),
            Choice::AdvanceAppend { n } => self.advance(n, "AdvanceAppend"),
            Choice::AdvanceAsync { n } => self.advance(n, "AdvanceAsync"),
            Choice::Fsync { n, upto } => self.fsync(n, upto),
            Choice::Notify { n, number } => self.notify(n, number),
            Choice::Apply { n, k } => self.apply(n, k),
            Choice::Compact { n, k } => self.compact(n, k),
            Choice::MakeSnap { n } => self.make_snap(n),
            Choice::Crash { n } => self.crash(n),
            Choice::Restart { n, applied } => {
                if self.is_up(n) {
                    return None;
                }
                Some(self.restart_inner(n, applied, "Restart"))
            }
            Choice::SetKnob { n, name, val } => self.set_knob(n, &name, val),
            Choice::SetTimeout { n, rt } => {
                let i = self.slot(n);
                self.nodes[i].rt_next = rt as usize;
                self.nodes[i].rt_used = false;
                None
            }
        }
    }

    fn idle(&self, n: u64) -> bool {
        let slot = &self.nodes[self.slot(n)];
        slot.raw.is_some() && slot.app.outstanding.is_none()
    }

    fn simple_call(
        &mut self,
        n: u64,
        ev: &str,
        a: Value,
        f: impl FnOnce(&mut RawNode<SimStorage>) -> raft::Result<()>,
    ) -> Option<Event> {
        if !self.idle(n) {
            return None;
        }
        let hr0 = self.hr0(n);
        let (r, gen, _) = self.call(n, f, Self::res_fmt);
        Some(self.event(ev, n, a, r, hr0, gen, vec![], ReadyV::default(), false))
    }

    fn deliver(&mut self, m: &MsgV, keep: bool) -> Option<Event> {
        let idx = self.find_in_net(m)?;
        let n = m.to;
        if !self.cfg.ids.contains(&n) || !self.idle(n) {
            return None;
        }
        let msg = if keep {
            self.net[idx].clone()
        } else {
            self.net.remove(idx)
        };
        if msg.get_msg_type() == MessageType::MsgSnapshot && !keep && self.is_up(msg.from) {
            let i = self.slot(msg.from);
            self.nodes[i].app.snap_reports.push((msg.to, true));
        }
        let hr0 = self.hr0(n);
        let (r, gen, _) = self.call(n, |r| r.step(msg), Self::res_fmt);
        Some(self.event(
            "Deliver",
            n,
            json!({"m": m, "keep": keep}),
            r,
            hr0,
            gen,
            vec![],
            ReadyV::default(),
            false,
        ))
    }

    fn ready(&mut self, n: u64, force: bool) -> Option<Event> {
        if !self.idle(n) {
            return None;
        }
        let hr0 = self.hr0(n);
        if !hr0 && !force {
            return None;
        }
        let (r, _gen, rd) = self.call(n, |r| r.ready(), |_| "ok".into());
        let mut rd = match rd {
            Some(rd) => rd,
            None => {
                return Some(self.event(
                    "Ready",
                    n,
                    json!({ "force": force }),
                    r,
                    hr0,
                    vec![],
                    vec![],
                    ReadyV::default(),
                    true,
                ))
            }
        };
        let i = self.slot(n);
        let mut rv = ReadyV {
            number: rd.number(),
            has_hs: rd.hs().is_some(),
            hs: rd.hs().map(hs_view).unwrap_or_default(),
            has_ss: rd.ss().is_some(),
            ents: rd.entries().iter().map(entry_view).collect(),
            snap: snap_view(rd.snapshot()),
            committed: rd.committed_entries().iter().map(entry_view).collect(),
            msgs: msgs_view(rd.messages()),
            pmsgs: msgs_view(rd.persisted_messages()),
            read_states: rd
                .read_states()
                .iter()
                .map(|s| ReadStateV {
                    index: s.index,
                    ctx: String::from_utf8_lossy(&s.request_ctx).into_owned(),
                })
                .collect(),
            must_sync: rd.must_sync(),
            commit_index: 0,
        };
        for e in rd.entries() {
            check_entry_size(e);
        }
        let batch = WriteBatch {
            number: rd.number(),
            snapshot: if rd.snapshot().is_empty() {
                None
            } else {
                Some(rd.snapshot().clone())
            },
            entries: rd.entries().clone(),
            hs: rd.hs().cloned(),
        };
        let mut res = r;
        {
            let slot = &mut self.nodes[i];
            let raw = slot.raw.as_mut().unwrap();
            if let Err(e) = raw.mut_store().img.apply_batch(&batch) {
                res = format!("storerr: {}", e);
            }
            if let Some(s) = &batch.snapshot {
                // the application installs the snapshot into its state machine
                let sv = snap_view(s);
                slot.app.applied = sv.i;
                slot.app.sm_base = sv.i;
                slot.app.sm = decode_sm(&sv.data);
                slot.app.conf_hist.insert(sv.i, sv.conf.clone());
                slot.app.apply_queue.retain(|e| e.index > sv.i);
            }
            slot.app.pending.push(batch);
            slot.app.last_taken = rd.number();
            for e in rd.take_committed_entries() {
                slot.app.apply_queue.push_back(e);
            }
            let pm = rd.take_persisted_messages();
            if !pm.is_empty() {
                slot.app.held.push((rd.number(), pm));
            }
        }
        let out_msgs = rd.take_messages();
        let out = self.send(out_msgs);
        rv.msgs = out.clone();
        let slot = &mut self.nodes[i];
        slot.app.outstanding_number = rd.number();
        slot.app.outstanding = Some(rd);
        Some(self.event(
            "Ready",
            n,
            json!({ "force": force }),
            res,
            hr0,
            vec![],
            out,
            rv,
            true,
        ))
    }

    fn apply_entries_upto(&mut self, n: u64, k: u64) -> std::result::Result<(), String> {
        let i = self.slot(n);
        loop {
            let e = {
                let slot = &mut self.nodes[i];
                match slot.app.apply_queue.front() {
                    Some(e) if e.index <= k => slot.app.apply_queue.pop_front().unwrap(),
                    _ => break,
                }
            };
            let slot = &mut self.nodes[i];
            if e.index <= slot.app.applied {
                // covered by an installed snapshot or re-delivered; the state machine skips it
                continue;
            }
            slot.app.applied = e.index;
            match e.get_entry_type() {
                EntryType::EntryNormal => {
                    if !e.data.is_empty() {
                        slot.app
                            .sm
                            .push((e.index, String::from_utf8_lossy(&e.data).into_owned()));
                    }
                }
                EntryType::EntryConfChange | EntryType::EntryConfChangeV2 => {
                    let cc: Option<ConfChangeV2> =
                        if e.get_entry_type() == EntryType::EntryConfChange {
                            let mut c1 = ConfChange::default();
                            c1.merge_from_bytes(&e.data).ok().map(|_| {
                                use raft_proto::ConfChangeI;
                                c1.into_v2()
                            })
                        } else {
                            let mut c2 = ConfChangeV2::default();
                            c2.merge_from_bytes(&e.data).ok().map(|_| c2)
                        };
                    if let Some(cc) = cc {
                        let raw = slot.raw.as_mut().unwrap();
                        let rt = slot.rt_next;
                        NEXT_ELECTION_TIMEOUT.with(|c| c.set(rt));
                        let res = guarded(|| raw.apply_conf_change(&cc));
                        NEXT_ELECTION_TIMEOUT.with(|c| c.set(0));
                        match res {
                            Ok(Ok(cs)) => {
                                raw.mut_store().img.conf = cs.clone();
                                slot.app.conf_hist.insert(e.index, conf_view(&cs));
                            }
                            Ok(Err(_)) => {
                                // rejected change: the application treats it as a no-op
                            }
                            Err(p) => {
                                self.on_panic(n);
                                return Err(format!("panic: {}", p));
                            }
                        }
                    }
                }
            }
        }
        Ok(())
    }

    fn handle_light(&mut self, n: u64, mut light: raft::LightReady, rv: &mut ReadyV) -> Vec<MsgV> {
        let i = self.slot(n);
        rv.commit_index = light.commit_index().unwrap_or(0);
        rv.committed = light.committed_entries().iter().map(entry_view).collect();
        let slot = &mut self.nodes[i];
        for e in light.take_committed_entries() {
            slot.app.apply_queue.push_back(e);
        }
        let mut all: Vec<Message> = vec![];
        for (_, ms) in slot.app.held.drain(..) {
            all.extend(ms);
        }
        let lm = light.take_messages();
        rv.msgs = msgs_view(&lm);
        all.extend(lm);
        self.send(all)
    }

    fn advance(&mut self, n: u64, kind: &str) -> Option<Event> {
        let i = self.slot(n);
        if self.nodes[i].raw.is_none() || self.nodes[i].app.outstanding.is_none() {
            return None;
        }
        let hr0 = false;
        let mut rv = ReadyV::default();
        match kind {
            "AdvanceAsync" => {
                let rd = self.nodes[i].app.outstanding.take().unwrap();
                rv.number = rd.number();
                let (r, _, _) = self.call(n, |r| r.advance_append_async(rd), |_| "ok".into());
                Some(self.event(kind, n, json!({}), r, hr0, vec![], vec![], rv, true))
            }
            _ => {
                if kind == "Advance" {
                    // the application has applied everything handed out so far
                    let last = self.nodes[i]
                        .app
                        .apply_queue
                        .back()
                        .map(|e| e.index)
                        .unwrap_or(0);
                    if let Err(p) = self.apply_entries_upto(n, last) {
                        return Some(self.event(
                            kind,
                            n,
                            json!({}),
                            p,
                            hr0,
                            vec![],
                            vec![],
                            rv,
                            true,
                        ));
                    }
                }
                // make everything written so far durable
                self.fsync_inner(n, u64::MAX);
                let rd = self.nodes[i].app.outstanding.take().unwrap();
                rv.number = rd.number();
                let full = kind == "Advance";
                let (r, _, light) = self.call(
                    n,
                    |r| {
                        if full {
                            r.advance(rd)
                        } else {
                            r.advance_append(rd)
                        }
                    },
                    |_| "ok".into(),
                );
                let mut out = vec![];
                if let Some(light) = light {
                    let slot = &mut self.nodes[i];
                    slot.app.last_notified = slot.app.last_taken;
                    out = self.handle_light(n, light, &mut rv);
                }
                Some(self.event(kind, n, json!({}), r, hr0, vec![], out, rv, true))
            }
        }
    }

    fn fsync_inner(&mut self, n: u64, upto: u64) {
        let i = self.slot(n);
        let slot = &mut self.nodes[i];
        let mut rest = vec![];
        for b in slot.app.pending.drain(..) {
            if b.number <= upto {
                let _ = slot.dur.apply_batch(&b);
                slot.app.last_durable = b.number;
            } else {
                rest.push(b);
            }
        }
        slot.app.pending = rest;
        // conf state of the durable image follows the application's applied state lazily:
        // it is recomputed at restart from conf_hist (function of the committed log).
    }

    fn fsync(&mut self, n: u64, upto: u64) -> Option<Event> {
        let i = self.slot(n);
        if self.nodes[i].raw.is_none() || self.nodes[i].app.pending.is_empty() {
            return None;
        }
        if self.nodes[i].app.pending[0].number > upto {
            return None;
        }
        self.fsync_inner(n, upto);
        Some(self.event(
            "Fsync",
            n,
            json!({ "upto": upto }),
            "ok".into(),
            false,
            vec![],
            vec![],
            ReadyV::default(),
            true,
        ))
    }

    fn notify(&mut self, n: u64, number: u64) -> Option<Event> {
        let i = self.slot(n);
        if !self.idle(n) {
            return None;
        }
        {
            let a = &self.nodes[i].app;
            if number <= a.last_notified || number > a.last_durable {
                return None;
            }
        }
        let hr0 = self.hr0(n);
        let (r, gen, ok) = self.call(n, |r| r.on_persist_ready(number), |_| "ok".into());
        let mut out = vec![];
        if ok.is_some() {
            let slot = &mut self.nodes[i];
            slot.app.last_notified = number;
            let mut rel = vec![];
            let mut keep = vec![];
            for (k, ms) in slot.app.held.drain(..) {
                if k <= number {
                    rel.extend(ms);
                } else {
                    keep.push((k, ms));
                }
            }
            slot.app.held = keep;
            out = self.send(rel);
        }
        Some(self.event(
            "Notify",
            n,
            json!({ "number": number }),
            r,
            hr0,
            gen,
            out,
            ReadyV::default(),
            true,
        ))
    }

    fn apply(&mut self, n: u64, k: u64) -> Option<Event> {
        let i = self.slot(n);
        if !self.idle(n) {
            return None;
        }
        {
            let a = &self.nodes[i].app;
            let raft_applied = self.nodes[i].raw.as_ref().unwrap().raft.raft_log.applied;
            let last = a.apply_queue.back().map(|e| e.index).unwrap_or(a.applied);
            if k < a.applied || k > last.max(a.applied) {
                return None;
            }
            if k == a.applied && raft_applied >= k {
                return None;
            }
        }
        let hr0 = self.hr0(n);
        if let Err(p) = self.apply_entries_upto(n, k) {
            return Some(self.event(
                "Apply",
                n,
                json!({ "k": k }),
                p,
                hr0,
                vec![],
                vec![],
                ReadyV::default(),
                true,
            ));
        }
        let (r, gen, _) = self.call(n, |r| r.advance_apply_to(k), |_| "ok".into());
        Some(self.event(
            "Apply",
            n,
            json!({ "k": k }),
            r,
            hr0,
            gen,
            vec![],
            ReadyV::default(),
            true,
        ))
    }

    fn compact(&mut self, n: u64, k: u64) -> Option<Event> {
        let i = self.slot(n);
        if self.nodes[i].raw.is_none() {
            return None;
        }
        let bound = {
            let slot = &self.nodes[i];
            let raw = slot.raw.as_ref().unwrap();
            slot.app
                .applied
                .min(raw.raft.raft_log.applied)
                .min(slot.dur.hs.commit)
                .min(slot.dur.last_index())
                .min(raw.store().img.last_index())
        };
        if k > bound {
            return None;
        }
        let slot = &mut self.nodes[i];
        if k <= slot.dur.trunc_index || k <= slot.raw.as_ref().unwrap().store().img.trunc_index {
            return None;
        }
        // a snapshot at >= k must exist so that compacted entries remain recoverable
        let have = slot
            .raw
            .as_ref()
            .unwrap()
            .store()
            .img
            .snap
            .as_ref()
            .map(|s| s.get_metadata().index)
            .unwrap_or(0);
        if have < k {
            return None;
        }
        slot.raw.as_mut().unwrap().mut_store().img.compact(k);
        slot.dur.compact(k);
        Some(self.event(
            "Compact",
            n,
            json!({ "k": k }),
            "ok".into(),
            false,
            vec![],
            vec![],
            ReadyV::default(),
            true,
        ))
    }

    fn make_snap(&mut self, n: u64) -> Option<Event> {
        let i = self.slot(n);
        self.nodes[i].raw.as_ref()?;
        let slot = &mut self.nodes[i];
        let raw = slot.raw.as_mut().unwrap();
        let s = slot
            .app
            .applied
            .min(raw.raft.raft_log.applied)
            // (not bounded by the stored HardState.commit: the commit index of a LightReady need not be written, so
            //  the stored value may lag for ever; what the application has applied is committed)
            .min(slot.dur.last_index());
        if s == 0 || s <= slot.dur.trunc_index || s < slot.app.sm_base {
            return None;
        }
        let have = raw
            .store()
            .img
            .snap
            .as_ref()
            .map(|x| x.get_metadata().index)
            .unwrap_or(0);
        if have >= s {
            return None;
        }
        let term = slot.dur.term(s)?;
        let mut snap = Snapshot::default();
        snap.mut_metadata().index = s;
        snap.mut_metadata().term = term;
        snap.mut_metadata()
            .set_conf_state(conf_state_of(&hist_conf_at(&slot.app.conf_hist, s)));
        let data: Vec<String> = slot
            .app
            .sm
            .iter()
            .filter(|(k, _)| *k <= s)
            .map(|(k, p)| format!("{}:{}", k, p))
            .collect();
        snap.set_data(data.join(",").into_bytes().into());
        raw.mut_store().img.snap = Some(snap.clone());
        slot.dur.snap = Some(snap);
        Some(self.event(
            "MakeSnap",
            n,
            json!({ "i": s }),
            "ok".into(),
            false,
            vec![],
            vec![],
            ReadyV::default(),
            true,
        ))
    }

    fn crash(&mut self, n: u64) -> Option<Event> {
        let i = self.slot(n);
        self.nodes[i].raw.as_ref()?;
        let slot = &mut self.nodes[i];
        slot.raw = None;
        Self::lose_volatile(slot);
        Some(self.event(
            "Crash",
            n,
            json!({}),
            "ok".into(),
            false,
            vec![],
            vec![],
            ReadyV::default(),
            true,
        ))
    }

    fn restart_inner(&mut self, n: u64, applied: i64, ev: &str) -> Event {
        let i = self.slot(n);
        let logger = self.logger.clone();
        let slot = &mut self.nodes[i];
        let lo = slot.dur.trunc_index;
        let hi = slot.app.applied.min(slot.dur.hs.commit).max(lo);
        // an explicit applied index may lie beyond the stored commit index (HardState.commit need not be synced
        // with every advance; the application knows what it applied) but not beyond the durable log
        let dur_last = slot.dur.trunc_index + slot.dur.entries.len() as u64;
        let hi_explicit = slot.app.applied.min(dur_last).max(lo);
        let a = if applied < 0 {
            hi
        } else {
            (applied as u64).clamp(lo, hi_explicit)
        };
        let mut img = slot.dur.clone();
        img.conf = conf_state_of(&hist_conf_at(&slot.app.conf_hist, a));
        slot.dur.conf = img.conf.clone();
        slot.app.applied = a;
        slot.app.sm.retain(|(k, _)| *k <= a);
        slot.app.last_taken = 0;
        slot.app.last_durable = 0;
        slot.app.last_notified = 0;
        slot.app.incarnation += 1;
        slot.panicked = false;
        let cfg = Self::config_of(slot, a);
        let rt = slot.rt_next;
        NEXT_ELECTION_TIMEOUT.with(|c| c.set(rt));
        let res = guarded(|| RawNode::new(&cfg, SimStorage { img }, &logger));
        NEXT_ELECTION_TIMEOUT.with(|c| c.set(0));
        let r = match res {
            Ok(Ok(raw)) => {
                slot.raw = Some(raw);
                "ok".to_string()
            }
            Ok(Err(e)) => panic!("harness bug: RawNode::new rejected the configuration: {:?}", e),
            Err(p) => {
                slot.panicked = true;
                format!("panic: {}", p)
            }
        };
        let knobs = serde_json::to_value(&self.nodes[i].knobs).unwrap();
        self.event(
            ev,
            n,
            json!({"applied": a, "knobs": knobs}),
            r,
            false,
            vec![],
            vec![],
            ReadyV::default(),
            true,
        )
    }

    fn set_knob(&mut self, n: u64, name: &str, val: i64) -> Option<Event> {
        if !self.idle(n) {
            return None;
        }
        let i = self.slot(n);
        {
            let k = &mut self.nodes[i].knobs;
            match name {
                "max_committed_size_per_ready" => k.max_committed_size_per_ready = val,
                "batch_append" => k.batch_append = val != 0,
                "skip_bcast_commit" => k.skip_bcast_commit = val != 0,
                "priority" => k.priority = val,
                "check_quorum" => k.check_quorum = val != 0,
                "max_apply_unpersisted_log_limit" => {
                    k.max_apply_unpersisted_log_limit = val as u64
                }
                _ => {}
            }
        }
        let name2 = name.to_string();
        let hr0 = self.hr0(n);
        let (r, gen, _) = self.call(
            n,
            move |r| match name2.as_str() {
                "max_committed_size_per_ready" => {
                    r.raft.set_max_committed_size_per_ready(unlim(val))
                }
                "batch_append" => r.set_batch_append(val != 0),
                "skip_bcast_commit" => r.skip_bcast_commit(val != 0),
                "priority" => r.set_priority(val),
                "check_quorum" => r.raft.set_check_quorum(val != 0),
                "max_apply_unpersisted_log_limit" => {
                    r.raft.set_max_apply_unpersisted_log_limit(val as u64)
                }
                s if s.starts_with("inflight:") => {
                    let j: u64 = s[9..].parse().unwrap_or(0);
                    r.raft.adjust_max_inflight_msgs(j, val as usize)
                }
                "group_commit" => r.raft.enable_group_commit(val != 0),
                "clear_groups" => r.raft.clear_commit_group(),
                s if s.starts_with("group:") => {
                    let j: u64 = s[6..].parse().unwrap_or(0);
                    r.raft.assign_commit_groups(&[(j, val.max(1) as u64)])
                }
                _ => {}
            },
            |_| "ok".into(),
        );
        Some(self.event(
            "SetKnob",
            n,
            {
                // "inflight:3" / "group:3" are reported as name + peer
                let (base, j) = match name.split_once(':') {
                    Some((b, j)) => (b.to_string(), j.parse::<u64>().unwrap_or(0)),
                    None => (name.to_string(), 0),
                };
                let v = if base == "group" { val.max(1) } else { val };
                json!({"name": base, "j": j, "val": v})
            },
            r,
            hr0,
            gen,
            vec![],
            ReadyV::default(),
            false,
        ))
    }
}

pub fn decode_sm(data: &str) -> Vec<(u64, String)> {
    if data.is_empty() {
        vec![]
    } else {
        data.split(',')
            .map(|p| {
                let mut it = p.splitn(2, ':');
                let k = it.next().unwrap_or("0").parse().unwrap_or(0);
                (k, it.next().unwrap_or("").to_string())
            })
            .collect()
    }
}
