//! Projection of the real raft-rs state into the abstract state of spec/RaftRs.tla.
//! Everything here is serialisable to the JSON shapes that the TLA+ trace modules read.
//! Conventions (TLC side): arrays are 1-based sequences; u64::MAX (NO_LIMIT) is -1; sets of
//! ids are ascending arrays; maps keyed by id are arrays of records with an `id` field.

use protobuf::Message as PbMessage;
use raft::eraftpb::{
    ConfChange, ConfChangeTransition, ConfChangeType, ConfChangeV2, ConfState, Entry, EntryType,
    HardState, Message, MessageType, Snapshot,
};
use raft::{ProgressState, RawNode, StateRole, Storage};
use serde::{Deserialize, Serialize};

pub const NO_LIMIT: u64 = u64::MAX;

pub fn lim(v: u64) -> i64 {
    if v == NO_LIMIT {
        -1
    } else {
        v as i64
    }
}

#[derive(Serialize, Deserialize, Clone, PartialEq, Eq, Debug, Default, PartialOrd, Ord)]
pub struct ChV {
    pub t: String, // "V" add voter, "L" add learner, "R" remove
    pub id: u64,
}

#[derive(Serialize, Deserialize, Clone, PartialEq, Eq, Debug, Default, PartialOrd, Ord)]
pub struct EntryV {
    pub i: u64,
    pub t: u64,
    pub ty: String, // "N" | "C1" | "C2"
    pub p: String,  // payload of a normal entry (utf8) or hex for undecodable data
    pub tr: String, // conf-change transition "A" | "I" | "E" ("" for normal, "A" for V1)
    pub ch: Vec<ChV>,
    pub sz: u64, // data.len()
}

pub fn ch_type(t: ConfChangeType) -> &'static str {
    match t {
        ConfChangeType::AddNode => "V",
        ConfChangeType::AddLearnerNode => "L",
        ConfChangeType::RemoveNode => "R",
    }
}

pub fn entry_view(e: &Entry) -> EntryV {
    let mut v = EntryV {
        i: e.index,
        t: e.term,
        sz: e.data.len() as u64,
        ..Default::default()
    };
    match e.get_entry_type() {
        EntryType::EntryNormal => {
            v.ty = "N".into();
            v.p = String::from_utf8_lossy(&e.data).into_owned();
        }
        EntryType::EntryConfChange => {
            v.ty = "C1".into();
            let mut cc = ConfChange::default();
            if cc.merge_from_bytes(&e.data).is_ok() {
                v.tr = "A".into();
                v.ch = vec![ChV {
                    t: ch_type(cc.get_change_type()).into(),
                    id: cc.node_id,
                }];
            } else {
                v.p = "?".into();
            }
        }
        EntryType::EntryConfChangeV2 => {
            v.ty = "C2".into();
            let mut cc = ConfChangeV2::default();
            if cc.merge_from_bytes(&e.data).is_ok() {
                v.tr = match cc.get_transition() {
                    ConfChangeTransition::Auto => "A",
                    ConfChangeTransition::Implicit => "I",
                    ConfChangeTransition::Explicit => "E",
                }
                .into();
                v.ch = cc
                    .changes
                    .iter()
                    .map(|c| ChV {
                        t: ch_type(c.get_change_type()).into(),
                        id: c.node_id,
                    })
                    .collect();
            } else {
                v.p = "?".into();
            }
        }
    }
    v
}

/// protobuf size of an entry as the spec computes it (valid for index, term < 128, len < 126).
pub fn spec_entry_size(v: &EntryV) -> u64 {
    (if v.ty != "N" { 2 } else { 0 })
        + (if v.t > 0 { 2 } else { 0 })
        + (if v.i > 0 { 2 } else { 0 })
        + (if v.sz > 0 { 2 + v.sz } else { 0 })
}

pub fn check_entry_size(e: &Entry) {
    let v = entry_view(e);
    if e.index < 128 && e.term < 128 && e.data.len() < 126 && e.context.is_empty() && !e.sync_log {
        assert_eq!(
            spec_entry_size(&v),
            u64::from(e.compute_size()),
            "spec entry size formula diverges from protobuf for {:?}",
            e
        );
    }
}

#[derive(Serialize, Deserialize, Clone, PartialEq, Eq, Debug, Default, PartialOrd, Ord)]
pub struct ConfV {
    pub voters: Vec<u64>,
    pub outgoing: Vec<u64>,
    pub learners: Vec<u64>,
    #[serde(rename = "learnersNext")]
    pub learners_next: Vec<u64>,
    #[serde(rename = "autoLeave")]
    pub auto_leave: bool,
}

fn sorted(v: &[u64]) -> Vec<u64> {
    let mut v = v.to_vec();
    v.sort_unstable();
    v.dedup();
    v
}

pub fn conf_view(cs: &ConfState) -> ConfV {
    ConfV {
        voters: sorted(cs.get_voters()),
        outgoing: sorted(cs.get_voters_outgoing()),
        learners: sorted(cs.get_learners()),
        learners_next: sorted(cs.get_learners_next()),
        auto_leave: cs.auto_leave,
    }
}

pub fn conf_state_of(v: &ConfV) -> ConfState {
    let mut cs = ConfState::default();
    cs.set_voters(v.voters.clone());
    cs.set_voters_outgoing(v.outgoing.clone());
    cs.set_learners(v.learners.clone());
    cs.set_learners_next(v.learners_next.clone());
    cs.auto_leave = v.auto_leave;
    cs
}

#[derive(Serialize, Deserialize, Clone, PartialEq, Eq, Debug, Default, PartialOrd, Ord)]
pub struct SnapV {
    pub i: u64,
    pub t: u64,
    pub conf: ConfV,
    pub data: String,
}

pub fn snap_view(s: &Snapshot) -> SnapV {
    let m = s.get_metadata();
    SnapV {
        i: m.index,
        t: m.term,
        conf: conf_view(m.get_conf_state()),
        data: String::from_utf8_lossy(s.get_data()).into_owned(),
    }
}

#[derive(Serialize, Deserialize, Clone, PartialEq, Eq, Debug, Default, PartialOrd, Ord)]
pub struct MsgV {
    pub ty: String,
    pub from: u64,
    pub to: u64,
    pub term: u64,
    pub lt: u64,
    pub idx: u64,
    pub ents: Vec<EntryV>,
    pub commit: u64,
    pub ct: u64,
    pub snap: SnapV,
    pub rs: u64,
    pub rej: bool,
    pub hint: u64,
    pub ctx: String,
    pub prio: i64,
}

pub fn msg_type_name(t: MessageType) -> &'static str {
    match t {
        MessageType::MsgHup => "Hup",
        MessageType::MsgBeat => "Beat",
        MessageType::MsgPropose => "Prop",
        MessageType::MsgAppend => "App",
        MessageType::MsgAppendResponse => "AppResp",
        MessageType::MsgRequestVote => "Vote",
        MessageType::MsgRequestVoteResponse => "VoteResp",
        MessageType::MsgSnapshot => "Snap",
        MessageType::MsgHeartbeat => "HB",
        MessageType::MsgHeartbeatResponse => "HBResp",
        MessageType::MsgUnreachable => "Unreachable",
        MessageType::MsgSnapStatus => "SnapStatus",
        MessageType::MsgCheckQuorum => "CheckQuorum",
        MessageType::MsgTransferLeader => "Transfer",
        MessageType::MsgTimeoutNow => "TimeoutNow",
        MessageType::MsgReadIndex => "ReadIndex",
        MessageType::MsgReadIndexResp => "ReadIndexResp",
        MessageType::MsgRequestPreVote => "PreVote",
        MessageType::MsgRequestPreVoteResponse => "PreVoteResp",
    }
}

pub fn msg_view(m: &Message) -> MsgV {
    MsgV {
        ty: msg_type_name(m.get_msg_type()).into(),
        from: m.from,
        to: m.to,
        term: m.term,
        lt: m.log_term,
        idx: m.index,
        ents: m.entries.iter().map(entry_view).collect(),
        commit: m.commit,
        ct: m.commit_term,
        snap: snap_view(m.get_snapshot()),
        rs: m.request_snapshot,
        rej: m.reject,
        hint: m.reject_hint,
        ctx: String::from_utf8_lossy(&m.context).into_owned(),
        prio: m.priority,
    }
}

pub fn msgs_view(ms: &[Message]) -> Vec<MsgV> {
    let mut v: Vec<MsgV> = ms.iter().map(msg_view).collect();
    v.sort();
    v
}

#[derive(Serialize, Deserialize, Clone, PartialEq, Eq, Debug, Default)]
pub struct HsV {
    pub term: u64,
    pub vote: u64,
    pub commit: u64,
}

pub fn hs_view(h: &HardState) -> HsV {
    HsV {
        term: h.term,
        vote: h.vote,
        commit: h.commit,
    }
}

pub fn role_name(r: StateRole) -> &'static str {
    match r {
        StateRole::Follower => "F",
        StateRole::PreCandidate => "P",
        StateRole::Candidate => "C",
        StateRole::Leader => "L",
    }
}

#[derive(Serialize, Deserialize, Clone, PartialEq, Eq, Debug, Default)]
pub struct InsV {
    pub start: u64,
    pub count: u64,
    pub cap: u64,
    pub icap: i64, // -1 = None
    pub buf: Vec<u64>,
    /// the logical FIFO content (derived from the ring)
    pub q: Vec<u64>,
}

#[derive(Serialize, Deserialize, Clone, PartialEq, Eq, Debug, Default)]
pub struct PrV {
    pub id: u64,
    pub matched: u64,
    pub next: u64,
    pub state: String, // "P" | "R" | "S"
    pub paused: bool,
    #[serde(rename = "pendSnap")]
    pub pend_snap: u64,
    #[serde(rename = "pendReqSnap")]
    pub pend_req_snap: u64,
    pub active: bool,
    pub ins: InsV,
    pub cg: u64,
    pub ci: u64,
}

#[derive(Serialize, Deserialize, Clone, PartialEq, Eq, Debug, Default)]
pub struct VoteV {
    pub id: u64,
    pub v: bool,
}

#[derive(Serialize, Deserialize, Clone, PartialEq, Eq, Debug, Default)]
pub struct RoPendV {
    pub ctx: String,
    pub from: u64,
    pub index: u64,
    pub acks: Vec<u64>,
}

#[derive(Serialize, Deserialize, Clone, PartialEq, Eq, Debug, Default)]
pub struct RoV {
    pub queue: Vec<String>,
    pub pending: Vec<RoPendV>,
}

#[derive(Serialize, Deserialize, Clone, PartialEq, Eq, Debug, Default)]
pub struct ReadStateV {
    pub index: u64,
    pub ctx: String,
}

#[derive(Serialize, Deserialize, Clone, PartialEq, Eq, Debug, Default)]
pub struct LogV {
    pub offset: u64,
    pub uents: Vec<EntryV>,
    pub usnap: SnapV,
    pub committed: u64,
    pub persisted: u64,
    pub applied: u64,
    pub maul: i64,
    /// derived: first/last index and last term as the RaftLog reports them
    pub first: u64,
    pub last: u64,
    #[serde(rename = "lastTerm")]
    pub last_term: u64,
}

#[derive(Serialize, Deserialize, Clone, PartialEq, Eq, Debug, Default)]
pub struct RecV {
    pub number: u64,
    pub li: u64,
    pub lt: u64,
    pub si: u64,
    pub st: u64,
}

#[derive(Serialize, Deserialize, Clone, PartialEq, Eq, Debug, Default)]
pub struct RnV {
    #[serde(rename = "prevHS")]
    pub prev_hs: HsV,
    #[serde(rename = "prevLead")]
    pub prev_lead: u64,
    #[serde(rename = "prevRole")]
    pub prev_role: String,
    #[serde(rename = "maxNumber")]
    pub max_number: u64,
    pub records: Vec<RecV>,
    #[serde(rename = "commitSince")]
    pub commit_since: u64,
    /// number of the latest Ready with an unpersisted term/vote change (0 = none)
    pub uhs: u64,
}

#[derive(Serialize, Deserialize, Clone, PartialEq, Eq, Debug, Default)]
pub struct NodeView {
    pub id: u64,
    pub term: u64,
    pub vote: u64,
    pub role: String,
    pub lead: u64,
    pub ee: u64,
    pub he: u64,
    pub rt: u64,
    pub lte: u64,
    pub pci: u64,
    pub prs: u64,
    pub promotable: bool,
    pub prio: i64,
    pub votes: Vec<VoteV>,
    pub conf: ConfV,
    pub pr: Vec<PrV>,
    pub ro: RoV,
    #[serde(rename = "readStates")]
    pub read_states: Vec<ReadStateV>,
    pub msgs: Vec<MsgV>,
    pub log: LogV,
    pub rn: RnV,
    pub usz: u64,
    pub lti: u64,
    // run-time adjustable knobs as the node currently holds them
    #[serde(rename = "checkQuorum")]
    pub check_quorum: bool,
    #[serde(rename = "preVote")]
    pub pre_vote: bool,
    #[serde(rename = "skipBcastCommit")]
    pub skip_bcast_commit: bool,
    #[serde(rename = "batchAppend")]
    pub batch_append: bool,
    #[serde(rename = "maxCommittedSize")]
    pub max_committed_size: i64,
    #[serde(rename = "groupCommit")]
    pub group_commit: bool,
}

pub fn project<T: Storage>(rn: &RawNode<T>) -> NodeView {
    let r = &rn.raft;
    let (prev_hs, (prev_lead, prev_role), max_number, records, commit_since) = rn.verif_view();
    let (lti, _max_unc, _min_et, _max_et, skip_bcast, batch, _dpf, mcs) = r.verif_view();
    let mut votes: Vec<VoteV> = r
        .prs()
        .votes()
        .iter()
        .map(|(id, v)| VoteV { id: *id, v: *v })
        .collect();
    votes.sort_by_key(|v| v.id);
    let mut pr: Vec<PrV> = r
        .prs()
        .iter()
        .map(|(id, p)| {
            let (start, count, cap, icap, buf) = p.ins.verif_view();
            let mut q = Vec::new();
            for k in 0..count {
                let mut idx = start + k;
                if cap > 0 && idx >= cap {
                    idx -= cap;
                }
                q.push(buf.get(idx).copied().unwrap_or(u64::MAX >> 40));
            }
            PrV {
                id: *id,
                matched: p.matched,
                next: p.next_idx,
                state: match p.state {
                    ProgressState::Probe => "P",
                    ProgressState::Replicate => "R",
                    ProgressState::Snapshot => "S",
                }
                .into(),
                paused: p.paused,
                pend_snap: p.pending_snapshot,
                pend_req_snap: p.pending_request_snapshot,
                active: p.recent_active,
                ins: InsV {
                    start: start as u64,
                    count: count as u64,
                    cap: cap as u64,
                    icap: icap.map(|c| c as i64).unwrap_or(-1),
                    buf,
                    q,
                },
                cg: p.commit_group_id,
                ci: p.committed_index,
            }
        })
        .collect();
    pr.sort_by_key(|p| p.id);
    let mut pending: Vec<RoPendV> = r
        .read_only
        .pending_read_index
        .iter()
        .map(|(k, s)| {
            let mut acks: Vec<u64> = s.acks.iter().copied().collect();
            acks.sort_unstable();
            RoPendV {
                ctx: String::from_utf8_lossy(k).into_owned(),
                from: s.req.from,
                index: s.index,
                acks,
            }
        })
        .collect();
    pending.sort_by(|a, b| a.ctx.cmp(&b.ctx));
    let log = &r.raft_log;
    let usnap = match &log.unstable.snapshot {
        Some(s) => snap_view(s),
        None => SnapV::default(),
    };
    NodeView {
        id: r.id,
        term: r.term,
        vote: r.vote,
        role: role_name(r.state).into(),
        lead: r.leader_id,
        ee: r.election_elapsed as u64,
        he: r.heartbeat_elapsed() as u64,
        rt: r.randomized_election_timeout() as u64,
        lte: r.lead_transferee.unwrap_or(0),
        pci: r.pending_conf_index,
        prs: r.pending_request_snapshot,
        promotable: r.promotable(),
        prio: r.priority,
        votes,
        conf: conf_view(&r.prs().conf().to_conf_state()),
        pr,
        ro: RoV {
            queue: r
                .read_only
                .read_index_queue
                .iter()
                .map(|k| String::from_utf8_lossy(k).into_owned())
                .collect(),
            pending,
        },
        read_states: r
            .read_states
            .iter()
            .map(|s| ReadStateV {
                index: s.index,
                ctx: String::from_utf8_lossy(&s.request_ctx).into_owned(),
            })
            .collect(),
        msgs: r.msgs.iter().map(msg_view).collect(),
        log: LogV {
            offset: log.unstable.offset,
            uents: log.unstable.entries.iter().map(entry_view).collect(),
            usnap,
            committed: log.committed,
            persisted: log.persisted,
            applied: log.applied,
            maul: lim(log.max_apply_unpersisted_log_limit),
            first: log.first_index(),
            last: log.last_index(),
            last_term: log.term(log.last_index()).unwrap_or(0),
        },
        rn: RnV {
            prev_hs: hs_view(&prev_hs),
            prev_lead,
            prev_role: role_name(prev_role).into(),
            max_number,
            records: records
                .iter()
                .map(|(n, le, sn)| RecV {
                    number: *n,
                    li: le.map(|x| x.0).unwrap_or(0),
                    lt: le.map(|x| x.1).unwrap_or(0),
                    si: sn.map(|x| x.0).unwrap_or(0),
                    st: sn.map(|x| x.1).unwrap_or(0),
                })
                .collect(),
            commit_since,
            uhs: rn.verif_unpersisted_hs_number(),
        },
        usz: r.uncommitted_size() as u64,
        lti,
        check_quorum: r.check_quorum,
        pre_vote: r.pre_vote,
        skip_bcast_commit: skip_bcast,
        batch_append: batch,
        max_committed_size: lim(mcs),
        group_commit: r.group_commit(),
    }
}
