//! C12: replays MC_ConfChange vectors on the real `Changer` / `ProgressTracker` / `restore`.
use raft::eraftpb::{ConfChangeSingle, ConfChangeType, ConfState};
use raft::verif_export::restore;
use raft::{Changer, ProgressTracker};
use serde_json::Value;

fn ccs_of(v: &Value) -> Vec<ConfChangeSingle> {
    v.as_array()
        .unwrap()
        .iter()
        .map(|c| {
            let mut s = ConfChangeSingle::default();
            s.node_id = c["id"].as_u64().unwrap();
            s.set_change_type(match c["t"].as_str().unwrap() {
                "V" => ConfChangeType::AddNode,
                "L" => ConfChangeType::AddLearnerNode,
                _ => ConfChangeType::RemoveNode,
            });
            s
        })
        .collect()
}

fn apply_op(tr: &mut ProgressTracker, op: &Value) -> bool {
    let res = match op["op"].as_str().unwrap() {
        "simple" => Changer::new(tr).simple(&ccs_of(&op["ccs"])),
        "enter_joint" => Changer::new(tr).enter_joint(op["auto"].as_bool().unwrap(), &ccs_of(&op["ccs"])),
        "leave_joint" => Changer::new(tr).leave_joint(),
        o => panic!("unknown op {}", o),
    };
    match res {
        Ok((cfg, changes)) => {
            tr.apply_conf(cfg, changes, 1);
            true
        }
        Err(_) => false,
    }
}

fn sorted(v: &[u64]) -> Vec<u64> {
    let mut v = v.to_vec();
    v.sort_unstable();
    v
}

fn ids(v: &Value) -> Vec<u64> {
    v.as_array().unwrap().iter().map(|x| x.as_u64().unwrap()).collect()
}

fn state(tr: &ProgressTracker) -> (Vec<u64>, Vec<u64>, Vec<u64>, Vec<u64>, bool, Vec<u64>) {
    let cs = tr.conf().to_conf_state();
    let mut prs: Vec<u64> = tr.iter().map(|(id, _)| *id).collect();
    prs.sort_unstable();
    (
        sorted(cs.get_voters()),
        sorted(cs.get_voters_outgoing()),
        sorted(cs.get_learners()),
        sorted(cs.get_learners_next()),
        cs.auto_leave,
        prs,
    )
}

pub fn replay(v: &Value) -> Result<(), String> {
    let mut tr = ProgressTracker::new(4);
    let mut init = ConfState::default();
    init.set_voters(vec![1]);
    restore(&mut tr, 1, &init).map_err(|e| format!("initial restore failed: {:?}", e))?;
    for op in v["h"].as_array().unwrap() {
        if !apply_op(&mut tr, op) {
            return Err(format!("an operation of the path was rejected: {}", op));
        }
    }
    let before = state(&tr);
    let ok = apply_op(&mut tr, &v["op"]);
    if ok != v["ok"].as_bool().unwrap() {
        return Err(format!("accepted = {}", ok));
    }
    let got = state(&tr);
    if !ok && got != before {
        return Err(format!("a rejected change modified the tracker: {:?} -> {:?}", before, got));
    }
    let c = &v["conf"];
    let exp = (
        ids(&c["voters"]),
        ids(&c["outgoing"]),
        ids(&c["learners"]),
        ids(&c["learnersNext"]),
        c["autoLeave"].as_bool().unwrap(),
        ids(&v["prs"]),
    );
    if got != exp {
        return Err(format!("configuration/progress after the operation = {:?}", got));
    }
    // restoring the ConfState of the result reproduces it
    let cs = tr.conf().to_conf_state();
    let mut tr2 = ProgressTracker::new(4);
    restore(&mut tr2, 1, &cs).map_err(|e| format!("restore of the result failed: {:?}", e))?;
    if state(&tr2) != got {
        return Err(format!("restore(to_conf_state) = {:?}", state(&tr2)));
    }
    Ok(())
}
