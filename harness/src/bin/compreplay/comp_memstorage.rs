//! C19: replays MC_MemStorage vectors on the real `MemStorage`.
use raft::eraftpb::{ConfState, Entry, HardState, Snapshot};
use raft::storage::{GetEntriesContext, MemStorage, Storage};
use raft::{Error, StorageError};
use serde_json::Value;

fn conf_of(v: &Value) -> ConfState {
    let mut cs = ConfState::default();
    cs.set_voters(v.as_array().unwrap().iter().map(|x| x.as_u64().unwrap()).collect());
    cs
}

fn entry_of(v: &Value) -> Entry {
    let mut e = Entry::default();
    e.index = v["i"].as_u64().unwrap();
    e.term = v["t"].as_u64().unwrap();
    let sz = v["sz"].as_u64().unwrap() as usize;
    e.data = vec![b'x'; sz].into();
    e
}

/// Returns the error code of the operation (0 ok, -3 snapshot out of date).
fn apply_op(s: &MemStorage, op: &Value) -> i64 {
    match op["op"].as_str().unwrap() {
        "none" => 0,
        "append" => {
            let es: Vec<Entry> = op["ents"].as_array().unwrap().iter().map(entry_of).collect();
            s.wl().append(&es).unwrap();
            0
        }
        "compact" => {
            s.wl().compact(op["i"].as_u64().unwrap()).unwrap();
            0
        }
        "apply_snapshot" => {
            let mut snap = Snapshot::default();
            snap.mut_metadata().index = op["i"].as_u64().unwrap();
            snap.mut_metadata().term = op["t"].as_u64().unwrap();
            snap.mut_metadata().set_conf_state(conf_of(&op["conf"]));
            match s.wl().apply_snapshot(snap) {
                Ok(()) => 0,
                Err(Error::Store(StorageError::SnapshotOutOfDate)) => -3,
                Err(_) => -99,
            }
        }
        "commit_to" => {
            s.wl().commit_to(op["i"].as_u64().unwrap()).unwrap();
            0
        }
        "set_hardstate" => {
            let mut hs = HardState::default();
            hs.term = op["term"].as_u64().unwrap();
            hs.vote = op["vote"].as_u64().unwrap();
            hs.commit = op["commit"].as_u64().unwrap();
            s.wl().set_hardstate(hs);
            0
        }
        "set_conf_state" => {
            s.wl().set_conf_state(conf_of(&op["conf"]));
            0
        }
        o => panic!("unknown op {}", o),
    }
}

fn term_code(r: raft::Result<u64>) -> i64 {
    match r {
        Ok(t) => t as i64,
        Err(Error::Store(StorageError::Compacted)) => -1,
        Err(Error::Store(StorageError::Unavailable)) => -2,
        Err(_) => -99,
    }
}

pub fn replay(v: &Value) -> Result<(), String> {
    let s = MemStorage::new_with_conf_state((vec![1], vec![]));
    for op in v["h"].as_array().unwrap() {
        apply_op(&s, op);
    }
    let err = apply_op(&s, &v["op"]);
    if err != v["err"].as_i64().unwrap() {
        return Err(format!("operation result {} (expected {})", err, v["err"]));
    }
    let first = s.first_index().unwrap();
    let last = s.last_index().unwrap();
    if first != v["first"].as_u64().unwrap() || last != v["last"].as_u64().unwrap() {
        return Err(format!("first/last = {}/{}", first, last));
    }
    for (k, exp) in v["term"].as_array().unwrap().iter().enumerate() {
        let got = term_code(s.term(k as u64));
        if got != exp.as_i64().unwrap() {
            return Err(format!("term({}) = {}", k, got));
        }
    }
    let st = s.initial_state().unwrap();
    let hs = &v["hs"];
    if st.hard_state.term != hs["term"].as_u64().unwrap()
        || st.hard_state.vote != hs["vote"].as_u64().unwrap()
        || st.hard_state.commit != hs["commit"].as_u64().unwrap()
    {
        return Err(format!("hard state = {:?}", st.hard_state));
    }
    let mut voters = st.conf_state.voters.clone();
    voters.sort_unstable();
    let expc: Vec<u64> = v["conf"].as_array().unwrap().iter().map(|x| x.as_u64().unwrap()).collect();
    if voters != expc {
        return Err(format!("conf = {:?}", voters));
    }
    for q in v["ents"].as_array().unwrap() {
        let (lo, hi) = (q["lo"].as_u64().unwrap(), q["hi"].as_u64().unwrap());
        let max = q["max"].as_i64().unwrap();
        let mx: Option<u64> = if max < 0 { None } else { Some(max as u64) };
        let got = s.entries(lo, hi, mx, GetEntriesContext::empty(false));
        let exp = q["res"].as_array().unwrap();
        match got {
            Err(Error::Store(StorageError::Compacted)) => {
                if !(exp.len() == 1 && exp[0].as_i64() == Some(-1)) {
                    return Err(format!("entries({},{},{}) = Compacted", lo, hi, max));
                }
            }
            Err(e) => return Err(format!("entries({},{},{}) = {:?}", lo, hi, max, e)),
            Ok(es) => {
                let ok = exp.len() == es.len()
                    && exp.iter().zip(es.iter()).all(|(x, e)| {
                        x.is_object()
                            && x["i"].as_u64() == Some(e.index)
                            && x["t"].as_u64() == Some(e.term)
                            && x["sz"].as_u64() == Some(e.data.len() as u64)
                    });
                if !ok {
                    return Err(format!(
                        "entries({},{},{}) = {:?}",
                        lo,
                        hi,
                        max,
                        es.iter().map(|e| (e.index, e.term, e.data.len())).collect::<Vec<_>>()
                    ));
                }
            }
        }
    }
    for q in v["snap"].as_array().unwrap() {
        let req = q["req"].as_u64().unwrap();
        let snap = s.snapshot(req, 0).map_err(|e| format!("snapshot({}) = {:?}", req, e))?;
        let m = snap.get_metadata();
        let mut sv = m.get_conf_state().voters.clone();
        sv.sort_unstable();
        let ec: Vec<u64> = q["res"]["conf"].as_array().unwrap().iter().map(|x| x.as_u64().unwrap()).collect();
        if m.index != q["res"]["i"].as_u64().unwrap() || m.term != q["res"]["t"].as_u64().unwrap() || sv != ec {
            return Err(format!("snapshot({}) = ({}, {}, {:?})", req, m.index, m.term, sv));
        }
        if m.index < req {
            return Err(format!("snapshot({}) index {} below the requested one", req, m.index));
        }
    }
    Ok(())
}
