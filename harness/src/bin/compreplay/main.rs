//! compreplay: replays TLC-generated component vectors (one JSON object per line) on the real
//! data structures of raft-rs and compares every observable with the value TLC computed
//! from the specification.  Prints `MISMATCH <json>` per disagreement and a final `SUMMARY <json>`.

use std::collections::BTreeMap;
use std::io::{BufRead, BufReader};
use std::panic::{self, AssertUnwindSafe};

use fxhash::FxHasher;
use raft::verif_export::{AckedIndexer, Index};
use raft::{Inflights, JointConfig};
use serde_json::{json, Value};
use std::hash::BuildHasherDefault;

type FxSet = std::collections::HashSet<u64, BuildHasherDefault<FxHasher>>;

mod comp_log;
mod comp_memstorage;
mod comp_confchange;

fn ids(v: &Value) -> Vec<u64> {
    v.as_array()
        .map(|a| a.iter().map(|x| x.as_u64().unwrap()).collect())
        .unwrap_or_default()
}

/// A TLA+ function with integer keys arrives either as an array (domain 1..n) or an object.
pub fn int_map(v: &Value) -> BTreeMap<u64, i64> {
    let mut m = BTreeMap::new();
    match v {
        Value::Array(a) => {
            for (k, x) in a.iter().enumerate() {
                m.insert(k as u64 + 1, x.as_i64().unwrap());
            }
        }
        Value::Object(o) => {
            for (k, x) in o {
                m.insert(k.parse().unwrap(), x.as_i64().unwrap());
            }
        }
        _ => {}
    }
    m
}

fn fxset(v: &[u64]) -> FxSet {
    v.iter().copied().collect()
}

fn inf(v: u64) -> i64 {
    if v == u64::MAX {
        -1
    } else {
        v as i64
    }
}

fn inflights_state(ins: &Inflights) -> (usize, bool, Vec<u64>, usize) {
    let (start, count, cap, _icap, buf) = ins.verif_view();
    let mut q = vec![];
    for k in 0..count {
        let mut idx = start + k;
        if cap > 0 && idx >= cap {
            idx -= cap;
        }
        q.push(buf.get(idx).copied().unwrap_or(u64::MAX));
    }
    (ins.count(), ins.full(), q, cap)
}

fn apply_inflights_op(ins: &mut Inflights, op: &Value) {
    let name = op[0].as_str().unwrap();
    match name {
        "add" => ins.add(op[1].as_u64().unwrap()),
        "free_to" => ins.free_to(op[1].as_u64().unwrap()),
        "free_first" => ins.free_first_one(),
        "reset" => ins.reset(),
        "set_cap" => ins.set_cap(op[1].as_u64().unwrap() as usize),
        "maybe_free_buffer" => ins.maybe_free_buffer(),
        _ => panic!("unknown inflights op {}", name),
    }
}

fn replay_inflights(v: &Value) -> Result<(), String> {
    let h = v["h"].as_array().unwrap();
    let cap = h[0][1].as_u64().unwrap() as usize;
    let mut ins = Inflights::new(cap);
    for op in &h[1..] {
        apply_inflights_op(&mut ins, op);
    }
    let expect_panic = v["panics"].as_bool().unwrap();
    if expect_panic {
        // the model says the window is full: add would be a contract violation; the code must agree
        if !ins.full() {
            return Err("model says full (add must not be attempted) but full() is false".into());
        }
    } else {
        apply_inflights_op(&mut ins, &v["op"]);
    }
    let (count, full, q, cap) = inflights_state(&ins);
    let eq: Vec<u64> = ids(&v["q"]);
    if count as u64 != v["count"].as_u64().unwrap()
        || full != v["full"].as_bool().unwrap()
        || q != eq
        || cap as u64 != v["cap"].as_u64().unwrap()
    {
        return Err(format!(
            "real (count={}, full={}, q={:?}, cap={})",
            count, full, q, cap
        ));
    }
    Ok(())
}

#[derive(Default)]
struct Acks(BTreeMap<u64, (u64, u64)>);
impl AckedIndexer for Acks {
    fn acked_index(&self, voter_id: u64) -> Option<Index> {
        self.0.get(&voter_id).map(|(i, g)| Index {
            index: *i,
            group_id: *g,
        })
    }
}

fn replay_quorum(v: &Value) -> Result<(), String> {
    let kind = v["k"].as_str().unwrap();
    let inc = ids(&v["inc"]);
    match kind {
        "commit" => {
            let out = ids(&v["out"]);
            let cfg = JointConfig::verif_new_joint(fxset(&inc), fxset(&out));
            let mut acks = Acks::default();
            for (id, a) in int_map(&v["ack"]) {
                acks.0.insert(id, (a as u64, 0));
            }
            let (idx, _) = cfg.committed_index(false, &acks);
            let exp = v["exp"].as_i64().unwrap();
            if inf(idx) != exp {
                return Err(format!("JointConfig::committed_index = {}", inf(idx)));
            }
            // the same through ProgressTracker when every voter is tracked
            let tracked = ids(&v["ids"]);
            if !inc.is_empty() && inc.iter().chain(out.iter()).all(|x| tracked.contains(x)) {
                let mut cs = raft::eraftpb::ConfState::default();
                cs.set_voters(inc.clone());
                cs.set_voters_outgoing(out.clone());
                let mut tr = raft::ProgressTracker::new(4);
                if raft::verif_export::restore(&mut tr, 1, &cs).is_ok() {
                    for (id, (a, _)) in &acks.0 {
                        if let Some(p) = tr.get_mut(*id) {
                            p.matched = *a;
                        }
                    }
                    let (i2, _) = tr.maximal_committed_index();
                    if inf(i2) != exp {
                        return Err(format!("ProgressTracker::maximal_committed_index = {}", inf(i2)));
                    }
                }
            }
            Ok(())
        }
        "vote" => {
            let out = ids(&v["out"]);
            let tracked = ids(&v["ids"]);
            let yes = ids(&v["yes"]);
            let cfg = JointConfig::verif_new_joint(fxset(&inc), fxset(&out));
            let r = cfg.vote_result(|id| {
                if tracked.contains(&id) {
                    Some(yes.contains(&id))
                } else {
                    None
                }
            });
            let exp = v["exp"].as_str().unwrap();
            if format!("{:?}", r) != exp {
                return Err(format!("JointConfig::vote_result = {:?}", r));
            }
            if !inc.is_empty() {
                let mut cs = raft::eraftpb::ConfState::default();
                cs.set_voters(inc.clone());
                cs.set_voters_outgoing(out.clone());
                let mut tr = raft::ProgressTracker::new(4);
                if raft::verif_export::restore(&mut tr, 1, &cs).is_ok() {
                    for id in &tracked {
                        tr.record_vote(*id, yes.contains(id));
                    }
                    let (_, _, r2) = tr.tally_votes();
                    if format!("{:?}", r2) != exp {
                        return Err(format!("ProgressTracker::tally_votes = {:?}", r2));
                    }
                    let set: FxSet = yes.iter().copied().collect();
                    let hq = tr.has_quorum(&set);
                    // has_quorum(S): S voted yes, nobody else voted
                    let all_yes_only = tracked.iter().all(|id| yes.contains(id));
                    if all_yes_only && hq != (exp == "Won") {
                        return Err(format!("ProgressTracker::has_quorum = {}", hq));
                    }
                }
            }
            Ok(())
        }
        "group" => {
            let cfg = JointConfig::verif_new_joint(fxset(&inc), fxset(&[]));
            let grp = int_map(&v["grp"]);
            let mut acks = Acks::default();
            for (id, a) in int_map(&v["ack"]) {
                acks.0.insert(id, (a as u64, *grp.get(&id).unwrap_or(&0) as u64));
            }
            let (idx, _) = cfg.committed_index(true, &acks);
            let plain = v["plain"].as_i64().unwrap();
            if inf(idx) > plain {
                return Err(format!("group commit index {} exceeds plain {}", inf(idx), plain));
            }
            if v["strict"].as_bool().unwrap() && inf(idx) != v["exp"].as_i64().unwrap() {
                return Err(format!("group commit index = {}", inf(idx)));
            }
            Ok(())
        }
        "gjoint" => {
            let out = ids(&v["out"]);
            let grp = int_map(&v["grp"]);
            let ack = int_map(&v["ack"]);
            let plain = v["plain"].as_i64().unwrap();
            let strict = v["strict"].as_bool().unwrap();
            let exp = v["exp"].as_i64().unwrap();
            // JointConfig directly
            let cfg = JointConfig::verif_new_joint(fxset(&inc), fxset(&out));
            let mut acks = Acks::default();
            for (id, a) in &ack {
                acks.0.insert(*id, (*a as u64, *grp.get(id).unwrap_or(&0) as u64));
            }
            let (idx, _) = cfg.committed_index(true, &acks);
            if inf(idx) > plain || (strict && inf(idx) != exp) {
                return Err(format!("JointConfig group commit index = {}", inf(idx)));
            }
            // and through the ProgressTracker, as Raft::maybe_commit does
            let mut cs = raft::eraftpb::ConfState::default();
            cs.set_voters(inc.clone());
            cs.set_voters_outgoing(out.clone());
            let mut tr = raft::ProgressTracker::new(4);
            if raft::verif_export::restore(&mut tr, 1, &cs).is_ok() {
                tr.enable_group_commit(true);
                for (id, a) in &ack {
                    if let Some(p) = tr.get_mut(*id) {
                        p.matched = *a as u64;
                        p.commit_group_id = *grp.get(id).unwrap_or(&0) as u64;
                    }
                }
                let (i2, _) = tr.maximal_committed_index();
                if inf(i2) > plain || (strict && inf(i2) != exp) {
                    return Err(format!("ProgressTracker group commit index = {}", inf(i2)));
                }
            }
            Ok(())
        }
        _ => Err("unknown kind".into()),
    }
}

fn main() {
    panic::set_hook(Box::new(|_| {}));
    let path = std::env::args().nth(1).expect("vectors file");
    let f = BufReader::new(std::fs::File::open(&path).unwrap());
    let mut n = 0u64;
    let mut mism = 0u64;
    let mut by_kind: BTreeMap<String, u64> = BTreeMap::new();
    let mut first: Vec<Value> = vec![];
    for line in f.lines() {
        let line = line.unwrap();
        if line.trim().is_empty() {
            continue;
        }
        let v: Value = serde_json::from_str(&line).expect("bad vector json");
        let kind = v["k"].as_str().unwrap_or("?").to_string();
        n += 1;
        *by_kind.entry(kind.clone()).or_insert(0) += 1;
        let r = panic::catch_unwind(AssertUnwindSafe(|| match kind.as_str() {
            "inflights" => replay_inflights(&v),
            "commit" | "vote" | "group" | "gjoint" => replay_quorum(&v),
            "memstorage" => comp_memstorage::replay(&v),
            "raftlog" => comp_log::replay(&v),
            "confchange" => comp_confchange::replay(&v),
            _ => Err("unknown vector kind".to_string()),
        }));
        let err = match r {
            Ok(Ok(())) => None,
            Ok(Err(e)) => Some(e),
            Err(_) => Some("panic in the code under test".to_string()),
        };
        if let Some(e) = err {
            mism += 1;
            if first.len() < 20 {
                first.push(json!({"vector": v, "real": e}));
            }
            println!("MISMATCH {}", json!({"vector": v, "real": e}));
        }
    }
    println!(
        "SUMMARY {}",
        json!({"vectors": n, "mismatches": mism, "by_kind": by_kind, "first": first})
    );
}
