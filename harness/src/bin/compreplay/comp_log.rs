//! C14: replays MC_Log vectors on a real `RaftLog<SimStorage>`.
use raft::eraftpb::{Entry, Snapshot};
use raft::storage::GetEntriesContext;
use raft::{Config, Error, RaftLog, StorageError};
use serde_json::Value;
use verif_harness::storage::{SimStorage, StoreImage, WriteBatch};

fn entry_of(v: &Value) -> Entry {
    let mut e = Entry::default();
    e.index = v["i"].as_u64().unwrap();
    e.term = v["t"].as_u64().unwrap();
    e.data = v["p"].as_str().unwrap().as_bytes().to_vec().into();
    e
}

fn ents_of(v: &Value) -> Vec<Entry> {
    v.as_array().unwrap().iter().map(entry_of).collect()
}

fn same_ents(exp: &Value, got: &[Entry]) -> bool {
    let a = exp.as_array().unwrap();
    a.len() == got.len()
        && a.iter().zip(got.iter()).all(|(x, e)| {
            x["i"].as_u64() == Some(e.index)
                && x["t"].as_u64() == Some(e.term)
                && x["sz"].as_u64() == Some(e.data.len() as u64)
        })
}

fn snap(i: u64, t: u64) -> Snapshot {
    let mut s = Snapshot::default();
    s.mut_metadata().index = i;
    s.mut_metadata().term = t;
    s.mut_metadata().mut_conf_state().set_voters(vec![1]);
    s
}

fn max_of(v: &Value) -> Option<u64> {
    let m = v.as_i64().unwrap();
    if m < 0 {
        None
    } else {
        Some(m as u64)
    }
}

/// Applies one operation; returns a JSON-comparable result.
#[allow(deprecated)]
fn apply_op(l: &mut RaftLog<SimStorage>, op: &Value) -> Value {
    use serde_json::json;
    match op["op"].as_str().unwrap() {
        "none" => json!(0),
        "append" => json!(l.append(&ents_of(&op["ents"]))),
        "maybe_append" => {
            match l.maybe_append(
                op["idx"].as_u64().unwrap(),
                op["term"].as_u64().unwrap(),
                op["commit"].as_u64().unwrap(),
                &ents_of(&op["ents"]),
            ) {
                Some((c, last)) => json!([c, last]),
                None => json!([-1, -1]),
            }
        }
        "commit_to" => {
            l.commit_to(op["i"].as_u64().unwrap());
            json!(0)
        }
        "maybe_commit" => json!(l.maybe_commit(op["i"].as_u64().unwrap(), op["t"].as_u64().unwrap())),
        "stable" => {
            let snapshot = l.unstable.snapshot.clone();
            let entries = l.unstable.entries.clone();
            let b = WriteBatch {
                number: 0,
                snapshot: snapshot.clone(),
                entries: entries.clone(),
                hs: None,
            };
            l.store.img.apply_batch(&b).unwrap();
            if let Some(s) = snapshot {
                l.stable_snap(s.get_metadata().index);
            }
            if let Some(e) = entries.last() {
                l.stable_entries(e.index, e.term);
            }
            json!(0)
        }
        "maybe_persist" => {
            l.maybe_persist(op["i"].as_u64().unwrap(), op["t"].as_u64().unwrap());
            json!(0)
        }
        "maybe_persist_snap" => {
            l.maybe_persist_snap(op["i"].as_u64().unwrap());
            json!(0)
        }
        "restore" => {
            l.restore(snap(op["i"].as_u64().unwrap(), op["t"].as_u64().unwrap()));
            json!(0)
        }
        "compact" => {
            l.store.img.compact(op["i"].as_u64().unwrap());
            json!(0)
        }
        "applied_to" => {
            l.applied_to(op["i"].as_u64().unwrap());
            json!(0)
        }
        o => panic!("unknown op {}", o),
    }
}

pub fn replay(v: &Value) -> Result<(), String> {
    let logger = slog::Logger::root(slog::Discard, slog::o!());
    let cfg = Config {
        id: 1,
        ..Default::default()
    };
    let mut l = RaftLog::new(
        SimStorage {
            img: StoreImage::default(),
        },
        logger,
        &cfg,
    );
    for op in v["h"].as_array().unwrap() {
        apply_op(&mut l, op);
    }
    let res = apply_op(&mut l, &v["op"]);
    if res != v["res"] {
        return Err(format!("operation returned {} (expected {})", res, v["res"]));
    }
    let c = &v["core"];
    let term_codes: Vec<i64> = (0..c["term"].as_array().unwrap().len() as u64)
        .map(|k| match l.term(k) {
            Ok(t) => t as i64,
            Err(_) => -1,
        })
        .collect();
    let exp_terms: Vec<i64> = c["term"].as_array().unwrap().iter().map(|x| x.as_i64().unwrap()).collect();
    let usnap = l.unstable.snapshot.as_ref().map(|s| s.get_metadata().index).unwrap_or(0);
    if l.first_index() != c["first"].as_u64().unwrap()
        || l.last_index() != c["last"].as_u64().unwrap()
        || term_codes != exp_terms
        || l.committed != c["committed"].as_u64().unwrap()
        || l.persisted != c["persisted"].as_u64().unwrap()
        || l.applied != c["applied"].as_u64().unwrap()
        || l.unstable.offset != c["offset"].as_u64().unwrap()
        || !same_ents(&c["uents"], &l.unstable.entries)
        || usnap != c["usnap"].as_u64().unwrap()
    {
        return Err(format!(
            "core: first={} last={} terms={:?} committed={} persisted={} applied={} offset={} uents={:?} usnap={}",
            l.first_index(),
            l.last_index(),
            term_codes,
            l.committed,
            l.persisted,
            l.applied,
            l.unstable.offset,
            l.unstable.entries.iter().map(|e| (e.index, e.term)).collect::<Vec<_>>(),
            usnap
        ));
    }
    for q in v["slices"].as_array().unwrap() {
        let (lo, hi) = (q["lo"].as_u64().unwrap(), q["hi"].as_u64().unwrap());
        let got = l.slice(lo, hi, max_of(&q["max"]), GetEntriesContext::empty(false));
        let exp_err = q["res"]["err"].as_bool().unwrap();
        match got {
            Err(Error::Store(StorageError::Compacted)) if exp_err => {}
            Ok(es) if !exp_err && same_ents(&q["res"]["ents"], &es) => {}
            other => {
                return Err(format!(
                    "slice({},{},{}) = {:?}",
                    lo,
                    hi,
                    q["max"],
                    other.map(|es| es.iter().map(|e| (e.index, e.term, e.data.len())).collect::<Vec<_>>())
                ))
            }
        }
    }
    for q in v["fcbt"].as_array().unwrap() {
        let (i, t) = (q["i"].as_u64().unwrap(), q["t"].as_u64().unwrap());
        let (gi, gt) = l.find_conflict_by_term(i, t);
        let gt = gt.map(|x| x as i64).unwrap_or(-1);
        if gi as i64 != q["res"][0].as_i64().unwrap() || gt != q["res"][1].as_i64().unwrap() {
            return Err(format!("find_conflict_by_term({},{}) = ({},{})", i, t, gi, gt));
        }
    }
    for q in v["utd"].as_array().unwrap() {
        let (i, t) = (q["i"].as_u64().unwrap(), q["t"].as_u64().unwrap());
        if l.is_up_to_date(i, t) != q["res"].as_bool().unwrap() {
            return Err(format!("is_up_to_date({},{}) = {}", i, t, l.is_up_to_date(i, t)));
        }
    }
    for q in v["next"].as_array().unwrap() {
        let since = q["since"].as_u64().unwrap();
        let has = l.has_next_entries_since(since);
        let got = l.next_entries_since(since, max_of(&q["max"])).unwrap_or_default();
        if has != q["has"].as_bool().unwrap() || !same_ents(&q["res"], &got) {
            return Err(format!(
                "next_entries_since({},{}) = has {} {:?}",
                since,
                q["max"],
                has,
                got.iter().map(|e| (e.index, e.term)).collect::<Vec<_>>()
            ));
        }
    }
    for q in v["fc"].as_array().unwrap() {
        let got = l.find_conflict(&ents_of(&q["ents"]));
        if got != q["res"].as_u64().unwrap() {
            return Err(format!("find_conflict({}) = {}", q["ents"], got));
        }
    }
    Ok(())
}
