//! simrun: drive the real cluster with the seeded scheduler (or replay a choice file) and
//! write the ndjson trace consumed by the TLA+ trace specifications.
//!
//!   simrun gen --profile P --seed S [--count N] [--steps K] --out trace.ndjson [--choices dir]
//!   simrun replay --choices file.json --out trace.ndjson

use std::fs::File;
use std::io::{BufWriter, Write};

use serde::{Deserialize, Serialize};
use serde_json::json;
use verif_harness::sched::{Profile, Sched};
use verif_harness::sim::{install_panic_hook, Choice, Cluster, ClusterCfg, Event};

#[derive(Serialize, Deserialize)]
struct ChoiceFile {
    profile: String,
    seed: u64,
    cfg: ClusterCfg,
    choices: Vec<Choice>,
}

fn arg(args: &[String], name: &str) -> Option<String> {
    args.iter()
        .position(|a| a == name)
        .and_then(|i| args.get(i + 1).cloned())
}

fn write_events(w: &mut impl Write, evs: &[Event], run: u64) {
    for e in evs {
        let mut v = serde_json::to_value(e).unwrap();
        v["run"] = json!(run);
        writeln!(w, "{}", v).unwrap();
    }
}

fn reset_line(w: &mut impl Write, run: u64, prof: &str, seed: u64, cfg: &ClusterCfg) {
    let v = json!({"ev": "Reset", "run": run, "profile": prof, "seed": seed,
        "ids": cfg.ids, "voters": cfg.voters, "learners": cfg.learners, "n": 0, "seq": 0});
    writeln!(w, "{}", v).unwrap();
}

fn main() {
    install_panic_hook();
    let args: Vec<String> = std::env::args().collect();
    let mode = args.get(1).cloned().unwrap_or_default();
    let out = arg(&args, "--out").expect("--out");
    let mut w = BufWriter::new(File::create(&out).unwrap());
    match mode.as_str() {
        "gen" => {
            let pname = arg(&args, "--profile").unwrap_or_else(|| "core".into());
            let seed0: u64 = arg(&args, "--seed").map(|s| s.parse().unwrap()).unwrap_or(1);
            let count: u64 = arg(&args, "--count").map(|s| s.parse().unwrap()).unwrap_or(1);
            let choices_dir = arg(&args, "--choices");
            let mut total = 0usize;
            let mut panics = 0usize;
            for k in 0..count {
                let seed = seed0 + k;
                let mut prof = Profile::named(&pname).expect("unknown profile");
                if let Some(s) = arg(&args, "--steps") {
                    prof.steps = s.parse().unwrap();
                }
                let steps = prof.steps;
                let stab = prof.stabilize_rounds;
                let lease_rounds = prof.lease_rounds;
                let (mut sched, mut cl) = Sched::new(prof, seed);
                reset_line(&mut w, k + 1, &pname, seed, &cl.cfg);
                let mut evs = cl.init_all();
                let mut choices: Vec<Choice> = vec![];
                sched.refresh_timeouts(&mut cl);
                let scripted = !sched.prof.script.is_empty();
                if scripted {
                    sched.run_script(&mut cl, &mut evs);
                    choices.append(&mut sched.record);
                }
                for _ in 0..(if scripted { 0 } else { steps }) {
                    let c = match sched.next_choice(&cl) {
                        Some(c) => c,
                        None => break,
                    };
                    // record the timeout each node would draw (needed for faithful replay)
                    for slot in cl.nodes.iter() {
                        choices.push(Choice::SetTimeout { n: slot.id, rt: slot.rt_next as u64 });
                    }
                    if let Some(e) = cl.apply_choice(&c) {
                        if e.r.starts_with("panic") {
                            panics += 1;
                        }
                        evs.push(e);
                        choices.push(c);
                    }
                    sched.refresh_timeouts(&mut cl);
                }
                if lease_rounds > 0 {
                    sched.stabilize(&mut cl, &mut evs, stab, "zz");
                    write_events(&mut w, &evs, k + 1);
                    // drop whatever is still in flight, then check the premises of the scenario
                    cl.net.clear();
                    if let Some((l, members, t)) = sched.lease_premise(&cl) {
                        let v = json!({"ev": "LeaseStart", "run": k + 1, "n": 0, "seq": 0,
                                       "a": {"leader": l, "members": members, "term": t}});
                        writeln!(w, "{}", v).unwrap();
                        let mut evs2 = vec![];
                        sched.lease(&mut cl, &mut evs2, l, &members, lease_rounds);
                        total += evs2.len();
                        write_events(&mut w, &evs2, k + 1);
                    }
                } else if stab > 0 {
                    let probe = sched.stabilize(&mut cl, &mut evs, stab, "zz");
                    let v = json!({"ev": "StableEnd", "run": k + 1, "n": 0, "seq": 0, "a": {"probe": probe}});
                    write_events(&mut w, &evs, k + 1);
                    writeln!(w, "{}", v).unwrap();
                    total += evs.len();
                    evs.clear();
                    // leadership rotation: an election may start on any member at any time (a timeout firing is
                    // not a fault); whatever replication state that member kept from earlier terms, the cluster
                    // must settle again and commit a fresh entry
                    if probe {
                        let ids = cl.cfg.ids.clone();
                        for (j, n) in ids.iter().enumerate() {
                            if !cl.is_up(*n) {
                                continue;
                            }
                            if let Some(e) = cl.apply_choice(&Choice::Campaign { n: *n }) {
                                evs.push(e);
                            }
                            let probe = sched.stabilize(&mut cl, &mut evs, stab, &format!("z{}", j));
                            let v = json!({"ev": "StableEnd", "run": k + 1, "n": 0, "seq": 0, "a": {"probe": probe}});
                            write_events(&mut w, &evs, k + 1);
                            writeln!(w, "{}", v).unwrap();
                            total += evs.len();
                            evs.clear();
                        }
                    }
                } else {
                    write_events(&mut w, &evs, k + 1);
                }
                total += evs.len();
                if let Some(d) = &choices_dir {
                    std::fs::create_dir_all(d).unwrap();
                    // drop redundant SetTimeout entries
                    let mut last: std::collections::HashMap<u64, u64> = Default::default();
                    let mut slim = vec![];
                    for c in choices {
                        if let Choice::SetTimeout { n, rt } = &c {
                            if last.get(n) == Some(rt) {
                                continue;
                            }
                            last.insert(*n, *rt);
                        }
                        slim.push(c);
                    }
                    let cf = ChoiceFile { profile: pname.clone(), seed, cfg: cl.cfg.clone(), choices: slim };
                    let f = File::create(format!("{}/{}-{}.json", d, pname, seed)).unwrap();
                    serde_json::to_writer(f, &cf).unwrap();
                }
            }
            eprintln!("simrun: profile={} runs={} events={} panics={}", pname, count, total, panics);
        }
        "replay" => {
            let path = arg(&args, "--choices").expect("--choices");
            let cf: ChoiceFile = serde_json::from_reader(File::open(&path).unwrap()).unwrap();
            let mut cl = Cluster::new(cf.cfg.clone());
            reset_line(&mut w, 1, &cf.profile, cf.seed, &cl.cfg);
            let mut evs = cl.init_all();
            let mut skipped = 0;
            for c in &cf.choices {
                match cl.apply_choice(c) {
                    Some(e) => evs.push(e),
                    None => {
                        if !matches!(c, Choice::SetTimeout { .. }) {
                            skipped += 1;
                        }
                    }
                }
            }
            write_events(&mut w, &evs, 1);
            eprintln!("simrun: replayed {} events, {} inapplicable choices", evs.len(), skipped);
        }
        "resume" => {
            // replay the first events of a recorded schedule (up to event seq --upto-seq), then continue with the
            // random scheduler of --profile under a new --seed for --steps steps (drift-guided exploration)
            let path = arg(&args, "--choices").expect("--choices");
            let cf: ChoiceFile = serde_json::from_reader(File::open(&path).unwrap()).unwrap();
            let upto: u64 = arg(&args, "--upto-seq").map(|s| s.parse().unwrap()).unwrap_or(0);
            let pname = arg(&args, "--profile").unwrap_or_else(|| cf.profile.clone());
            let seed0: u64 = arg(&args, "--seed").map(|s| s.parse().unwrap()).unwrap_or(1);
            let count: u64 = arg(&args, "--count").map(|s| s.parse().unwrap()).unwrap_or(1);
            let steps: usize = arg(&args, "--steps").map(|s| s.parse().unwrap()).unwrap_or(300);
            let choices_dir = arg(&args, "--save-choices");
            let mut total = 0usize;
            for k in 0..count {
                let seed = seed0 + k;
                let mut prof = Profile::named(&pname).unwrap_or_else(|| Profile::base(&pname));
                prof.ids = cf.cfg.ids.clone();
                prof.script = String::new();
                prof.stabilize_rounds = 0;
                prof.lease_rounds = 0;
                let (mut sched, _unused) = Sched::new(prof, seed);
                let mut cl = Cluster::new(cf.cfg.clone());
                reset_line(&mut w, k + 1, &pname, seed, &cl.cfg);
                let mut evs = cl.init_all();
                let mut applied: Vec<Choice> = vec![];
                for c in &cf.choices {
                    if upto > 0 && cl.seq >= upto {
                        break;
                    }
                    if let Some(e) = cl.apply_choice(c) {
                        evs.push(e);
                    }
                    applied.push(c.clone());
                }
                sched.refresh_timeouts(&mut cl);
                for _ in 0..steps {
                    let c = match sched.next_choice(&cl) {
                        Some(c) => c,
                        None => break,
                    };
                    for slot in cl.nodes.iter() {
                        applied.push(Choice::SetTimeout { n: slot.id, rt: slot.rt_next as u64 });
                    }
                    if let Some(e) = cl.apply_choice(&c) {
                        evs.push(e);
                        applied.push(c);
                    }
                    sched.refresh_timeouts(&mut cl);
                }
                total += evs.len();
                write_events(&mut w, &evs, k + 1);
                if let Some(d) = &choices_dir {
                    std::fs::create_dir_all(d).unwrap();
                    let out = ChoiceFile { profile: pname.clone(), seed, cfg: cf.cfg.clone(), choices: applied };
                    serde_json::to_writer(File::create(format!("{}/{}-{}.json", d, pname, seed)).unwrap(), &out).unwrap();
                }
            }
            eprintln!("simrun: profile={} runs={} events={} panics=0", pname, count, total);
        }
        "replaymc" => {
            // --lines: one JSON object per line {"h":[choice,...]} (TLC schedules); --cfg: ClusterCfg json
            // --tree: the schedules are merged into a trie: every event gets an `id` and the `parent` id of the
            //         event it follows, and an event shared by several schedules is written once
            let path = arg(&args, "--lines").expect("--lines");
            let tree = args.iter().any(|a| a == "--tree");
            let cfg: ClusterCfg = serde_json::from_reader(File::open(arg(&args, "--cfg").expect("--cfg")).unwrap()).unwrap();
            let f = std::io::BufReader::new(File::open(&path).unwrap());
            use std::io::BufRead;
            let mut run = 0u64;
            let (mut total, mut skipped) = (0usize, 0usize);
            let mut next_id = 1u64; // id 1 is the Reset line of the tree
            let mut trie: std::collections::HashMap<(u64, String), u64> = Default::default();
            if tree {
                let v = json!({"ev": "Reset", "run": 0, "profile": "mc", "seed": 0, "ids": cfg.ids, "voters": cfg.voters,
                               "learners": cfg.learners, "n": 0, "seq": 0, "id": 1, "parent": 0});
                writeln!(w, "{}", v).unwrap();
            }
            for line in f.lines() {
                let line = line.unwrap();
                if line.trim().is_empty() {
                    continue;
                }
                let v: serde_json::Value = serde_json::from_str(&line).unwrap();
                run += 1;
                let mut cl = Cluster::new(cfg.clone());
                if !tree {
                    reset_line(&mut w, run, "mc", run, &cl.cfg);
                }
                let hs = v["h"].as_array().unwrap();
                // the Init choice carries the timeouts drawn at start
                if let Some(rts) = hs.first().and_then(|c| c.get("rts")) {
                    for (k, id) in cfg.ids.iter().enumerate() {
                        let rt = match rts {
                            serde_json::Value::Array(a) => a.get((*id - 1) as usize).and_then(|x| x.as_u64()),
                            serde_json::Value::Object(o) => o.get(&id.to_string()).and_then(|x| x.as_u64()),
                            _ => None,
                        };
                        if let Some(rt) = rt {
                            cl.nodes[k].rt_next = rt as usize;
                        }
                    }
                }
                let mut cur = 1u64;
                let mut emit = |w: &mut BufWriter<File>, e: &Event, key: String, cur: &mut u64, total: &mut usize| {
                    if tree {
                        if let Some(id) = trie.get(&(*cur, key.clone())) {
                            *cur = *id;
                            return;
                        }
                        next_id += 1;
                        trie.insert((*cur, key), next_id);
                        let mut v = serde_json::to_value(e).unwrap();
                        v["run"] = json!(run);
                        v["id"] = json!(next_id);
                        v["parent"] = json!(*cur);
                        writeln!(w, "{}", v).unwrap();
                        *cur = next_id;
                    } else {
                        write_events(w, std::slice::from_ref(e), run);
                    }
                    *total += 1;
                };
                let init_key = hs.first().map(|c| c.to_string()).unwrap_or_default();
                for (k, e) in cl.init_all().iter().enumerate() {
                    emit(&mut w, e, format!("init{}:{}", k, init_key), &mut cur, &mut total);
                }
                for c in hs.iter().skip(1) {
                    if let Some(rt) = c.get("rt").and_then(|x| x.as_u64()) {
                        let n = c.get("n").and_then(|x| x.as_u64()).or_else(|| c["m"].get("to").and_then(|x| x.as_u64()));
                        if let Some(n) = n {
                            let i = cl.slot(n);
                            cl.nodes[i].rt_next = rt as usize;
                        }
                    }
                    let key = c.to_string();
                    let mut cv = c.clone();
                    if let Some(o) = cv.as_object_mut() {
                        o.remove("rt");
                        o.remove("ld");
                        if o.get("ev").and_then(|x| x.as_str()) == Some("Restart") {
                            // the spec restarts at its own applied index; -1 lets the harness pick the same default
                            o.insert("applied".into(), serde_json::json!(-1));
                        }
                    }
                    match serde_json::from_value::<Choice>(cv.clone()) {
                        Ok(ch) => match cl.apply_choice(&ch) {
                            Some(e) => emit(&mut w, &e, key, &mut cur, &mut total),
                            None => skipped += 1,
                        },
                        Err(e) => panic!("bad choice {}: {}", cv, e),
                    }
                }
            }
            eprintln!("simrun: replayed {} schedules, {} events, {} inapplicable choices", run, total, skipped);
        }
        _ => {
            eprintln!("usage: simrun gen|replay|replaymc ...");
            std::process::exit(2);
        }
    }
    w.flush().unwrap();
}
